#!/venv/bin/python
"""usage: seeded_archive.py <worktree> <seeded-id> <caught-by json>  — copies patch.diff, demo.py, meta.json into /verif/seeded/<id>/"""
import json, os, shutil, sys
wt, sid, caught = sys.argv[1], sys.argv[2], json.loads(sys.argv[3])
dst = os.path.join("/verif/seeded", sid)
os.makedirs(dst, exist_ok=True)
for f in ("patch.diff", "demo.py"):
    shutil.copy(os.path.join(wt, f), os.path.join(dst, f))
try:
    meta = json.load(open(os.path.join(wt, "meta.json")))
except Exception as e:
    meta = {"note": f"sub-agent meta.json unreadable: {e!r}"}
meta["confirmed_by_verif"] = {
    "procedure": "seeded_eval.sh: patch applied to a scratch copy of /repo/src -> demo.py exits non-zero; demo.py with PYTHONPATH=/repo/src (unchanged tree) exits 0; test suite result as reported by the sub-agent (46 pass / 5 known environment failures); then `git -C /repo apply patch.diff`, quick checks, `git -C /repo checkout -- .`",
    "checks": caught,
}
json.dump(meta, open(os.path.join(dst, "meta.json"), "w"), indent=1)
print("archived", dst)
