#!/bin/sh
# multi-seed false-alarm sweep: every quick check under several VERIF_SEED values.
# usage: sweep.sh "<seeds>" [repo]   (prints one line per run; any rc!=0 on the unchanged tree is a bug in the checks)
SEEDS="${1:-1 2 3 4 5}"
[ -n "$2" ] && export VERIF_REPO="$2"
cd "$(dirname "$0")"
for s in $SEEDS; do
  for p in C02 C04 C12 C16 C17 C18 C19; do
    out=$(VERIF_SEED=$s ./check $p 2>&1); rc=$?
    echo "seed=$s $p rc=$rc $(echo "$out" | grep -E 'VIOLATION|HARNESS' | head -2 | cut -c1-200)"
  done
done
