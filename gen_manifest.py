#!/venv/bin/python
"""Writes MANIFEST.json from the table below (single source of truth)."""
import json, os
HERE = os.path.dirname(os.path.abspath(__file__))

CLAIMED = {
 "C04": dict(
   design="5.2",
   technique="deterministic simulation: real fit() on Dask arrays under a seeded simulated scheduler (task order, stalls, worker placement, copy-vs-share, and - in the threads model - seeded pre-emption of concurrently running tasks at line and bytecode granularity; chunking and input forms as injected configurations), differential oracle vs in-memory fit",
   text="Seeded exploration: every run executes the repository's real Dask training path under SimScheduler (seeded task order / stalls / worker placement / serialisation isolation / row and feature chunking) and compares model, criterion and thresholded stop with the in-memory fit of the same tree, plus agreement between the three executor models; all row compositions for n<=5 (thorough n<=7) are enumerated. Sampling, not proof; appropriate because the property quantifies over schedules and chunkings that no finite test fixes.",
   note="Trusted: SimScheduler as a model of Dask's synchronous, threaded (real threads pre-empted under a seeded baton), multiprocessing and distributed executors; cloudpickle as wire format; in-memory path as reference; tolerance 1e-8 (1e-12 between executor models); near-tie / near-threshold / degenerate-variance cases are skipped and counted."),
 "C12": dict(
   design="5.3",
   technique="deterministic simulation: real ISV/JFA/i-vector fit() on Dask bags under a seeded simulated scheduler (partition layout, task order, placement, serialisation isolation, seeded thread pre-emption as injected faults), differential oracle vs list fit",
   text="Seeded exploration: every run trains ISV, JFA or the i-vector extractor from a dask.bag with an explicit partition layout (empty, singleton, class-mixing partitions, unsorted labels, every partition count) under SimScheduler and compares U/V/D or T/sigma with the in-memory list fit of the same tree and across the three executor models; every partition count 1..N for N<=5 (thorough N<=7) is enumerated. Sampling, not proof.",
   note="Trusted: SimScheduler as a model of Dask executors; cloudpickle as wire format; list fit as reference; generated statistics have count >= 0.1 per component so a dropped/duplicated partition is far above the 1e-8 tolerance."),
 "C02": dict(
   design="5.1",
   technique="deterministic simulation of a map-reduce over the real E-step: seeded block assignment, per-block NumPy/Dask backend, shared-or-copied transfer, seeded merge schedule (+, reversed +, +=, reduce(iadd)); invariants after every merge step, independent longdouble reference model",
   text="Seeded exploration with per-step invariants (count conservation, responsibilities non-negative and summing to the count, operands of + untouched, += returns its left operand) and end-of-run oracles (split-and-add == whole-set accumulation == independent longdouble reference model; incompatible shapes refused without side effects). All 2^(n-1) compositions for n<=6 (thorough n<=8) are enumerated with three merge schedules.",
   note="Trusted: dst/refmodel.py (independent numpy.longdouble posterior moments from the visible parameters); tolerance 1e-9 relative to (t, t*scale, t*scale^2, |ll|)."),
 "C17": dict(
   design="5.5",
   technique="deterministic simulation of an operation history on one GMMMachine (setters in any order, floors raised/lowered, EM steps on NumPy or on Dask under the simulated scheduler, restart events deepcopy/pickle/HDF5; the machine a copy was taken from and the prior of a MAP machine stay alive and are modified in between) with a fresh-machine reference model checked after every operation",
   text="Seeded history exploration: 3..25 public operations per history incl. restart-from-durable-state events; after every operation likelihoods and statistics on a probe batch must equal those of a freshly built machine with the same visible parameters (1e-12) and variances must respect the current floors. Histories are minimised by dropping operations. Sampling, not proof.",
   note="Trusted: the fresh machine built through public constructor+setters is the reference model; every generated change is >= 5 %, five orders of magnitude above the tolerance."),
 "C18": dict(
   design="5.6",
   technique="deterministic simulation of restart-from-durable-state histories: seeded chains of HDF5 save (path/open file) -> from_hdf5/load (same or other shape) on real h5py files, with bit-identity, settings, continued-training, re-save and legacy-layout oracles after every restart",
   text="Seeded history exploration over reachable machine states (ML/MAP, floors, switches, limits incl. None, pre-trained) and statistics values, chains of 1..4 save/restart steps; after every restart the reloaded object must be bit-identical, equal under ==, score identically, carry every recorded setting, train identically, re-save to an equivalent file, and agree with the legacy-layout image. No storage faults injected (the property promises nothing about crashes mid-save).",
   note="Trusted: h5py; the harness's legacy writer (validated at setup against the repository's own legacy/current file pair)."),
 "C19": dict(
   design="5.7",
   technique="deterministic simulation of a caller history: seeded sequences of public calls on a pool of caller-owned objects and Dask collections over them (shared / isolated / placed executor models), with caller interference (in-place scribble and restore, also while a snapshot of an adapted machine is trained) as the injected fault; deep-digest, repeat-call and shares_memory invariants after every call",
   text="Seeded history exploration: 5..30 calls per history over every public entry point the property lists, NumPy and Dask inputs; after every call every caller-owned object must be bit-identical (I1), a repeated call must return a bitwise-equal result (I2), and after the caller overwrites an input no previously trained model may change or share memory with a caller buffer (I3). Sampling, not proof.",
   note="Trusted: BLAKE2 deep digest over array bytes / scalars / visible parameters; SimScheduler's shared mode hands tasks the caller's own objects (as Dask's threaded scheduler does). Calls that raise are not C19 violations (inputs must still be untouched)."),
 "C16": dict(
   design="5.4",
   technique="deterministic simulation of a process history: seeded sequences of global-RNG perturbations, RNG-clobbering constructions, unrelated fits and repeated fits of one target spec under varying presentation (sample permutation, class relabelling), backend and simulated executor; oracle over the recorded history",
   text="Seeded history exploration: each history interleaves 3..7 fits of one (estimator, configuration, integer random_state, data set) with perturbations of NumPy's global generator, ISV/JFA constructions that re-seed it, and unrelated trainers that consume it; fits with the same presentation must agree to 1e-12 whatever preceded them and whatever the executor model/task order, fits with permuted samples or renamed classes to 1e-8. Sampling, not proof. Listed finding: seeded k-means initialisers depend on sample order.",
   note="Trusted: the history driver owns the global RNG; presentation invariance of k-means/GMM is asserted with explicit initial centroids/means and no convergence threshold (near-ties are skipped); seeded initialisers are evaluated and matched against the listed finding."),
}

NA = {
 "C01": "Pure function of (parameters, sample): log density vs closed form, tails, normalisers. Its only Dask clause is a purely functional dask.array graph with no shared state, so no schedule, fault or history can change its value; deterministic simulation has nothing to decide (C02's reference-model oracle recomputes the total log-likelihood independently as a side effect).",
 "C03": "Monotonicity of the ML objective and the stopping rule are properties of the deterministic update map on fixed inputs; no schedule/fault/history dimension. The Dask half ('same iterations as in memory') is decided under C04.",
 "C05": "MAP update formulas and their limits are algebraic identities on (prior, statistics, relevance); pure function of inputs and configuration.",
 "C06": "Descent of the distortion and the meaning of the reported criterion are properties of the update map; pure. The chunk dependence of the criterion is decided (and was repaired) under C04.",
 "C07": "Coordinate ascent on a concave quadratic: pure linear algebra on (U, V, D, statistics); nothing for a simulator to schedule or fault.",
 "C08": "Closed-form identity between linear_scoring and a derivative of the log-likelihood; pure function of its arguments.",
 "C09": "EM monotonicity of each JFA phase on in-memory statistics; pure. Its distributed execution is decided under C12/C04.",
 "C10": "Posterior mean as the solution of a linear system and EM monotonicity; pure. Bag execution is decided under C12.",
 "C11": "Equality between entry points that are compositions of the same pure functions; no environment event can distinguish them.",
 "C13": "Validity (finiteness, simplex, floors) on degenerate inputs is a property of the arithmetic on those inputs; no schedule or fault can create or remove a division by zero.",
 "C14": "Whitening/WCCN identities and label invariance are linear-algebra facts about (X, y); the Dask half is decided under C04, sample/label permutation under C16.",
 "C15": "Metamorphic relation under affine reparametrisation of the input; pure function of inputs.",
 "C20": "Distances, arg-min and per-cluster moments are pure functions of (centroids, data); the per-block reduction and the hand-over into the GMM are exercised by C04's k-means-initialised GMM runs.",
}
PENDING = {k: "Not claimed yet: simulation target per DESIGN.md §5, check under construction (will be claimed once its quick command is committed)." for k in ("C16", "C17", "C18", "C19") if k not in CLAIMED}

def main():
    checks = []
    for pid, c in sorted(CLAIMED.items()):
        checks.append({
            "property_id": pid,
            "quick_cmd": f"./check {pid} --tier quick",
            "thorough_cmd": f"./check {pid} --tier thorough",
            "evidence_file": f"/verif/evidence/{pid}.json",
            "replay_cmd_template": f"./check {pid} --replay {{path}}",
            "engine": "dst",
            "level_claimed": {"category": "exploration", "text": c["text"], "design_ref": f"DESIGN.md §{c['design']}"},
            "level_note": c["note"],
            "technique": c["technique"],
        })
    na = [{"property_id": k, "reason": v} for k, v in sorted({**NA, **PENDING}.items())]
    m = {
        "version": 1,
        "setup_cmd": "./setup.sh",
        "hooks": {
            "guard": "BOB_LEARN_EM_VERIF",
            "enable": "no hooks exist: every seam the simulator needs is already present (dask.config scheduler, uuid.uuid4, numpy global RNG, h5py file objects); checks import /repo/src directly, nothing is built",
            "baseline_off_cmd": "cd /repo && /venv/bin/python -m pytest -ra -q -p no:cacheprovider --timeout=900 --continue-on-collection-errors",
            "source_commits": [],
            "add_only": True,
        },
        "engines": [{
            "name": "dst", "path": "/verif/dst",
            "serves_properties": sorted(CLAIMED),
            "kind_free_text": "in-process deterministic simulator: SimScheduler installed through dask.config.set(scheduler=...), seeded choice source with record/replay, seeded operation-history drivers, fork-pool batch driver, greedy minimiser, fresh-interpreter replay confirmation",
        }],
        "checks": checks,
        "not_applicable": na,
        "notes": "Executor models: shared, isolated, placed(W), threads(T) (sys.monitoring LINE/INSTRUCTION pre-emption, store-point hunting). Exit codes: 0 property held on everything explored (KNOWN-FINDING lines possible), 1 VIOLATION with replay file, 2 harness error (never a VIOLATION). VERIF_SEED selects the master seed, VERIF_TIER/--tier the depth, VERIF_REPO (default /repo) the tree under test, VERIF_WORKERS the pool size. Two genuine defects were repaired by 'fix:' commits in /repo (see known_findings.json 'fixed').",
    }
    with open(os.path.join(HERE, "MANIFEST.json"), "w") as f:
        json.dump(m, f, indent=1)
        f.write("\n")

if __name__ == "__main__":
    main()
