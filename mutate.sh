#!/bin/sh
# usage: mutate.sh <python-snippet-file-or-'-'> <check args...>
# Copies /repo/src to a scratch dir, applies a python mutation script (reads stdin), runs ./check with VERIF_REPO, cleans up.
D=$(mktemp -d /tmp/mrepo.XXXXXX)
cp -r /repo/src "$D/src"
(cd "$D" && /venv/bin/python -)
shift 0
cd /verif && VERIF_REPO="$D" ./check "$@"
rc=$?
rm -rf "$D"
exit $rc
