#!/bin/sh
# Sensitivity regression: every seeded change under /verif/seeded must still be caught (exit 1 +
# VIOLATION line) by every check recorded as catching it. Runs on scratch copies (VERIF_REPO),
# /repo is not touched. usage: seeded_regress.sh [id-substring]
cd "$(dirname "$0")"
fail=0
for d in seeded/*${1}*/; do
  id=$(basename "$d")
  checks=$(/venv/bin/python -c "
import json,sys
m=json.load(open('$d/meta.json'))
print(' '.join(k for k,v in m.get('confirmed_by_verif',{}).get('checks',{}).items() if v.startswith('caught')))")
  D=$(mktemp -d /tmp/sreg.XXXXXX)
  cp -r /repo/src "$D/src"; mkdir -p "$D/tests"; cp -r /repo/tests/data "$D/tests/data" 2>/dev/null
  (cd "$D" && patch -p1 -s < "/verif/$d/patch.diff") || { echo "$id: PATCH DOES NOT APPLY"; fail=1; rm -rf "$D"; continue; }
  for c in $checks; do
    out=$(VERIF_REPO="$D" ./check "$c" --budget 40 2>&1); rc=$?
    cl=$(echo "$out" | grep -o "violation clause=[a-z-]*" | sort -u | tr '\n' ' ')
    if [ $rc -eq 1 ]; then echo "$id: $c caught ($cl)"; else echo "$id: $c MISSED rc=$rc"; fail=1; fi
  done
  rm -rf "$D"
done
exit $fail
