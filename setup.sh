#!/bin/sh
# Offline setup: nothing to build. Verify the interpreter, the repo dependencies and the
# simulator import, then run a short determinism self-test of the simulator.
set -e
HERE="$(cd "$(dirname "$0")" && pwd)"
cd "$HERE"
/venv/bin/python -c "import numpy, scipy, dask, dask.array, dask.bag, dask_ml, h5py, cloudpickle, sklearn; print('deps ok')"
mkdir -p evidence
exec /venv/bin/python "$HERE/dst/main.py" C04 --selftest determinism --runs 12
