"""Seams: everything nondeterministic the properties can depend on is owned here.

* interpreter-level: PYTHONHASHSEED, BLAS thread counts (re-exec once)
* repo location: VERIF_REPO (default /repo) -> <VERIF_REPO>/src first on sys.path
* uuid.uuid4 (dask key names for impure delayed calls / untokenisable objects)
* NumPy global RNG
"""
import os
import sys
import uuid as _uuid

_ENV = {
    "PYTHONHASHSEED": "0",
    "OMP_NUM_THREADS": "1",
    "OPENBLAS_NUM_THREADS": "1",
    "MKL_NUM_THREADS": "1",
    "NUMEXPR_NUM_THREADS": "1",
    "PYTHONDONTWRITEBYTECODE": "1",
}


def reexec_if_needed():
    """Re-exec the interpreter once so that hash seed and BLAS threads are fixed.

    A caller may pre-set PYTHONHASHSEED to something else (the determinism
    self-test does); then only the missing variables are added.
    """
    if os.environ.get("VERIF_REEXEC") == "1":
        return
    env = dict(os.environ)
    changed = False
    for k, v in _ENV.items():
        if k not in env:
            env[k] = v
            changed = True
    env["VERIF_REEXEC"] = "1"
    os.execve(sys.executable, [sys.executable] + sys.argv, env)


def repo_root():
    return os.environ.get("VERIF_REPO", "/repo")


def install_repo_path():
    src = os.path.join(repo_root(), "src")
    if not os.path.isdir(os.path.join(src, "bob", "learn", "em")):
        raise RuntimeError(f"no bob.learn.em under {src}")
    if sys.path[0] != src:
        sys.path.insert(0, src)
    import bob.learn.em as em  # noqa

    real = os.path.realpath(em.__file__)
    if not real.startswith(os.path.realpath(src)):
        raise RuntimeError(f"bob.learn.em imported from {real}, expected {src}")
    return em


_real_uuid4 = _uuid.uuid4


class UUIDSeam:
    """Deterministic replacement for uuid.uuid4 during a simulated run."""

    def __init__(self):
        self.counter = 0
        self.salt = 0

    def reset(self, salt=0):
        self.counter = 0
        self.salt = salt & ((1 << 60) - 1)

    def __call__(self):
        self.counter += 1
        return _uuid.UUID(int=(self.salt << 64 | self.counter) & ((1 << 128) - 1))


UUID_SEAM = UUIDSeam()


def install_uuid_seam():
    _uuid.uuid4 = UUID_SEAM


def begin_run(np_seed=0):
    """Reset every process-global the simulator owns. Called at the start of each run.

    Key names must not depend on the run seed (a replay file carries the case,
    not the seed), so the uuid counter always restarts from the same value.
    """
    import numpy as np

    UUID_SEAM.reset(0)
    if np_seed is not None:  # None: the history owns the global RNG state (C16)
        np.random.seed(np_seed % (2**32))


_DASK_CONFIG_SNAPSHOT = [None]


def reset_process_state():
    """Called before every simulated run: process-global state that the code under test (or a
    dependency) may have changed is put back, so that a run never depends on the runs that
    happened to precede it in the same worker process.  A leak therefore shows only inside the
    history of one run - where it is replayable - and not as cross-run contamination."""
    import copy
    import warnings

    import dask

    if _DASK_CONFIG_SNAPSHOT[0] is None:
        _DASK_CONFIG_SNAPSHOT[0] = copy.deepcopy(dask.config.config)
    elif dask.config.config != _DASK_CONFIG_SNAPSHOT[0]:
        dask.config.config.clear()
        dask.config.config.update(copy.deepcopy(_DASK_CONFIG_SNAPSHOT[0]))
    warnings.filterwarnings("ignore")
