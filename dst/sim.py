"""SimScheduler: a deterministic, seeded stand-in for the Dask scheduler.

Installed through Dask's own seam, ``dask.config.set(scheduler=sim.get)``.
It receives the real graphs that the real repo code builds and executes them
one task at a time.  Every decision (which ready task runs next, which worker
it runs on, whether a stall is injected) goes through a ``Choices`` object,
which either draws from the run PRNG and records, or replays a recorded list.
"""
import bisect
import contextlib
import hashlib
import os
import random
import sys
import threading

import cloudpickle
import dask

from dask._task_spec import convert_legacy_graph

MODES = ("shared", "isolated", "placed")
# "threads": tasks share memory AND run concurrently - real threads, exactly one of which holds
# the baton at any time; a thread is pre-empted at line events inside the repository's own code,
# at points chosen by the same Choices object (so the interleaving is seeded and replayable)
ALL_MODES = MODES + ("threads",)
# How long a resumed task runs before it yields: a number of line events, or (negative) "until
# the k-th next point that directly follows a statement that stored into an object attribute or
# item" - the instant at which shared state may be half-built, which is where concurrent tasks
# sharing an estimator can hurt each other.
# Values <= -11 hunt at BYTECODE granularity: "until just before the k-th next store
# instruction" (k = -10 - value). That splits a read-modify-write of shared state written on one
# line (`self.count += n`), which line-level pre-emption cannot.
QUANTA = (1, 2, 5, 20, 100, 10 ** 9, "S", "S", "S", "S", "O", "O")  # S / O: hunt, depth drawn next
_STORE_OPS = {"STORE_ATTR", "STORE_SUBSCR", "DELETE_ATTR", "STORE_SLICE"}
_STORE_LINES = {}
_OPS_AT = {}


def _op_at(code, offset):
    m = _OPS_AT.get(code)
    if m is None:
        import dis

        m = {ins.offset: ins.opname for ins in dis.get_instructions(code)}
        _OPS_AT[code] = m
    return m.get(offset)


def _store_lines(code):
    """Line numbers of a code object that contain an attribute / item store."""
    got = _STORE_LINES.get(code)
    if got is None:
        import dis

        got, cur = set(), None
        for ins in dis.get_instructions(code):
            if ins.starts_line is not None:
                cur = ins.starts_line if not isinstance(ins.starts_line, bool) else ins.positions.lineno
            if ins.opname in _STORE_OPS and cur is not None:
                got.add(cur)
        _STORE_LINES[code] = got
    return got
POLICIES = ("random", "fifo", "lifo", "stall", "reduce_last", "reduce_first")


class HarnessError(Exception):
    """Something went wrong in the simulator itself (never a VIOLATION)."""


class InjectedTaskFailure(Exception):
    """Raised by the simulator in place of a task (a worker lost / a task that raises): the
    caller's fit / compute call fails, the caller catches it and carries on."""


class Choices:
    """Single source of scheduling/fault decisions; records or replays."""

    def __init__(self, seed=None, replay=None):
        self.rng = random.Random(seed) if replay is None else None
        self.replay = list(replay) if replay is not None else None
        self.pos = 0
        self.log = []
        self.diverged = False
        self.nontrivial = 0

    def pick(self, n, policy_pick=None):
        """Return an index in [0, n). Trivial choices (n <= 1) are not recorded."""
        if n <= 1:
            return 0
        self.nontrivial += 1
        if self.replay is not None:
            if self.pos < len(self.replay):
                v = self.replay[self.pos]
                if not (0 <= v < n):
                    v = v % n
                    self.diverged = True
            else:
                v = 0
            self.pos += 1
        else:
            v = policy_pick(self.rng) if policy_pick is not None else self.rng.randrange(n)
        self.log.append(v)
        return v

    def coin(self, p):
        if p <= 0:
            return 0
        return self.pick(2, lambda r: 1 if r.random() < p else 0)


def _roundtrip(obj):
    return cloudpickle.loads(cloudpickle.dumps(obj))


def canon_key(key):
    """Key name without its token, for token-independent event logs."""
    if isinstance(key, tuple):
        return (canon_key(key[0]),) + tuple(key[1:])
    s = str(key)
    head, sep, tail = s.rpartition("-")
    if sep and len(tail) >= 8 and all(c in "0123456789abcdef-" for c in tail):
        return head
    return s


def _sort_key(key):
    return (str(canon_key(key)), str(key))


class SimScheduler:
    def __init__(self, mode="shared", policy="random", n_workers=2, stall_p=0.3,
                 choices=None, max_events=200000, fail_after=None, fail_mid=False):
        self.fail_after = fail_after
        self.fail_mid = fail_mid  # threads mode: the failure strikes a task that is under way
        if mode not in ALL_MODES:
            raise HarnessError(f"unknown mode {mode}")
        if policy not in POLICIES:
            raise HarnessError(f"unknown policy {policy}")
        self.mode = mode
        self.policy = policy
        self.n_workers = n_workers if mode == "placed" else 1
        self.n_threads = max(2, n_workers) if mode == "threads" else 1
        self.stall_p = stall_p
        self.choices = choices if choices is not None else Choices(seed=0)
        self.max_events = max_events
        self.seq = 0
        self.events = []
        self.stats = {
            "gets": 0, "tasks": 0, "reorder_choices": 0, "stalls": 0,
            "spec_copies": 0, "input_copies": 0, "output_copies": 0,
            "transfers": 0, "same_worker_shares": 0, "multi_dep_tasks": 0,
            "workers_used": 0, "preemptions": 0, "max_concurrent_tasks": 0,
            "injected_task_failures": 0,
        }
        self._depth = 0
        self._back = threading.Event()
        self._owner = threading.get_ident()
        from . import seams
        self._repo_prefix = os.path.join(os.path.realpath(seams.repo_root()), "src") + os.sep

    # ------------------------------------------------------------------
    def _pick_ready(self, ready, stamps, ndeps):
        n = len(ready)
        if n <= 1:
            return 0
        pol = self.policy
        if pol == "fifo":
            f = lambda r: min(range(n), key=lambda i: (stamps[ready[i]], i))  # noqa
        elif pol == "lifo":
            f = lambda r: max(range(n), key=lambda i: (stamps[ready[i]], -i))  # noqa
        elif pol == "reduce_last":
            def f(r):
                c = [i for i in range(n) if ndeps[ready[i]] <= 1] or list(range(n))
                return r.choice(c)
        elif pol == "reduce_first":
            def f(r):
                c = [i for i in range(n) if ndeps[ready[i]] > 1] or list(range(n))
                return r.choice(c)
        elif pol == "stall":
            def f(r):
                c = [i for i in range(n) if r.random() >= self.stall_p]
                if len(c) < n:
                    self.stats["stalls"] += n - len(c)
                return r.choice(c or list(range(n)))
        else:
            f = None
        self.stats["reorder_choices"] += 1
        return self.choices.pick(n, f)

    # ------------------------------------------------------------------
    def get(self, dsk, keys, **kwargs):
        self.stats["gets"] += 1
        self._depth += 1
        nested = self.mode == "threads" and threading.get_ident() != self._owner
        held = None
        if nested:
            # a compute issued from inside a task thread: run it atomically in that thread
            held = _TASK_OF_THREAD.pop(threading.get_ident(), None)
        try:
            return self._get(dsk, keys, atomic=nested)
        finally:
            if held is not None:
                _TASK_OF_THREAD[threading.get_ident()] = held
            self._depth -= 1

    def _get(self, dsk, keys, atomic=False):
        if hasattr(dsk, "__dask_graph__"):
            dsk = dsk.__dask_graph__()
        graph = convert_legacy_graph(dict(dsk))
        deps = {k: frozenset(d for d in node.dependencies if d in graph)
                for k, node in graph.items()}
        for k, node in graph.items():
            missing = [d for d in node.dependencies if d not in graph]
            if missing:
                raise HarnessError(f"task {k!r} depends on missing keys {missing!r}")
        # only run what the requested keys need
        wanted = set()
        stack = list(_flatten(keys))
        while stack:
            k = stack.pop()
            if k in wanted:
                continue
            if k not in graph:
                raise HarnessError(f"requested key {k!r} not in graph")
            wanted.add(k)
            stack.extend(deps[k])
        ndeps = {k: len(deps[k]) for k in wanted}
        if self.mode == "threads" and not atomic:
            _monitoring_on(self._repo_prefix)
            try:
                return self._get_threads(graph, deps, wanted, ndeps, keys)
            finally:
                _monitoring_off(self._repo_prefix)
        remaining = set(wanted)
        done = set()
        store = [dict() for _ in range(self.n_workers)]  # worker -> key -> value
        home = {}
        stamps = {}
        budget = max(10000, 50 * len(wanted))
        steps = 0
        workers_used = set()
        # incremental ready set, kept sorted by the canonical key (never by hash order)
        skey = {k: _sort_key(k) for k in wanted}
        dependents = {k: [] for k in wanted}
        missing = {}
        for k in wanted:
            missing[k] = len(deps[k])
            for d in deps[k]:
                dependents[d].append(k)
        ready_sorted = sorted((skey[k], k) for k in wanted if missing[k] == 0)
        while remaining:
            ready = [k for _, k in ready_sorted]
            if not ready:
                raise HarnessError("no ready task (cycle in graph?)")
            for k in ready:
                stamps.setdefault(k, self.seq)
            pick = self._pick_ready(ready, stamps, ndeps)
            k = ready[pick]
            del ready_sorted[pick]
            node = graph[k]
            steps += 1
            if steps > budget or self.seq > self.max_events:
                raise HarnessError("step budget exceeded")
            # placement
            if self.mode == "placed":
                w = self.choices.pick(self.n_workers)
            else:
                w = 0
            workers_used.add(w)
            # inputs
            inputs = {}
            for d in sorted(deps[k], key=_sort_key):
                if self.mode in ("shared", "threads"):
                    inputs[d] = store[0][d]
                elif self.mode == "isolated":
                    inputs[d] = _roundtrip(store[0][d])
                    self.stats["input_copies"] += 1
                else:
                    if d not in store[w]:
                        store[w][d] = _roundtrip(store[home[d]][d])
                        self.stats["transfers"] += 1
                    else:
                        self.stats["same_worker_shares"] += 1
                    inputs[d] = store[w][d]
            # task spec (embeds the estimator / bound methods / literal data)
            if self.mode in ("shared", "threads"):
                run_node = node
            else:
                try:
                    run_node = _roundtrip(node)
                except Exception as e:  # pragma: no cover
                    raise HarnessError(f"cannot serialise task {k!r}: {e!r}")
                self.stats["spec_copies"] += 1
            if self.fail_after is not None and self.stats["tasks"] >= self.fail_after:
                self.stats["injected_task_failures"] += 1
                self.events.append((self.seq, self._depth, "FAIL:" + str(canon_key(k)),
                                    _key_index(k), w, ndeps[k]))
                self.seq += 1
                raise InjectedTaskFailure(str(canon_key(k)))
            value = run_node(inputs)
            if self.mode == "isolated":
                value = _roundtrip(value)
                self.stats["output_copies"] += 1
            store[w][k] = value
            home[k] = w
            self.stats["tasks"] += 1
            if ndeps[k] > 1:
                self.stats["multi_dep_tasks"] += 1
            self.events.append((self.seq, self._depth, str(canon_key(k)),
                                _key_index(k), w, ndeps[k]))
            self.seq += 1
            done.add(k)
            remaining.discard(k)
            for dep in dependents[k]:
                missing[dep] -= 1
                if missing[dep] == 0:
                    bisect.insort(ready_sorted, (skey[dep], dep))
        self.stats["workers_used"] = max(self.stats["workers_used"], len(workers_used))

        def fetch(k):
            v = store[home[k]][k]
            if self.mode == "placed":
                self.stats["output_copies"] += 1
                return _roundtrip(v)
            return v

        return _unpack(keys, fetch)

    # ------------------------------------------------------------------
    def _get_threads(self, graph, deps, wanted, ndeps, keys):
        """Shared memory with concurrency: up to n_threads tasks are in flight; exactly one
        holds the baton; the holder yields at line events inside the repository's code."""
        remaining = set(wanted)
        done, started = set(), set()
        store = {}
        running = []
        budget = max(20000, 200 * len(wanted))
        steps = 0
        failure = None
        skey = {k: _sort_key(k) for k in wanted}
        dependents = {k: [] for k in wanted}
        missing = {}
        for k in wanted:
            missing[k] = len(deps[k])
            for d in deps[k]:
                dependents[d].append(k)
        ready_sorted = sorted((skey[k], k) for k in wanted if missing[k] == 0)
        while remaining or running:
            if failure is not None and not running:
                raise failure  # every in-flight task has been drained
            ready = [k for _, k in ready_sorted]
            options = [("resume", t) for t in running]
            if len(running) < self.n_threads and failure is None:
                options += [("start", k) for k in ready]
            if not options:
                raise HarnessError("threads mode: nothing runnable (cycle in graph?)")
            steps += 1
            if steps > budget:
                raise HarnessError("threads mode: step budget exceeded")
            if failure is not None:
                kind, what, quantum = "resume", running[0], 10 ** 9  # drain
            else:
                self.stats["reorder_choices"] += 1 if len(options) > 1 else 0
                kind, what = options[self.choices.pick(len(options))]
                quantum = QUANTA[self.choices.pick(len(QUANTA))]
                if quantum == "S":    # until the k-th next post-store line point
                    quantum = -(1 + self.choices.pick(3))
                elif quantum == "O":  # until just before the k-th next store instruction
                    quantum = -10 - (1 + self.choices.pick(16))
            if kind == "resume" and self.fail_mid and self.fail_after is not None \
                    and failure is None and self.stats["tasks"] >= self.fail_after \
                    and not what.kill and what.preempted > 0:
                # the task dies where it was pre-empted (an error / interrupt inside the task)
                what.kill = True
                self.stats["injected_task_failures"] += 1
                self.stats["injected_mid_task_failures"] = \
                    self.stats.get("injected_mid_task_failures", 0) + 1
                self.events.append((self.seq, self._depth, "KILL:" + str(canon_key(what.key)),
                                    _key_index(what.key), 0, ndeps[what.key]))
                self.seq += 1
            if kind == "start" and self.fail_after is not None and not self.fail_mid \
                    and self.stats["tasks"] >= self.fail_after:
                self.stats["injected_task_failures"] += 1
                self.events.append((self.seq, self._depth, "FAIL:" + str(canon_key(what)),
                                    _key_index(what), 0, ndeps[what]))
                self.seq += 1
                failure = InjectedTaskFailure(str(canon_key(what)))
                continue  # the tasks in flight are drained, then the call fails
            if kind == "start":
                k = what
                t = _TaskThread(self, k, graph[k], {d: store[d] for d in deps[k]})
                started.add(k)
                ready_sorted.remove((skey[k], k))
                running.append(t)
                self.events.append((self.seq, self._depth, "start:" + str(canon_key(k)),
                                    _key_index(k), 0, ndeps[k]))
                self.seq += 1
                self.stats["max_concurrent_tasks"] = max(self.stats["max_concurrent_tasks"],
                                                         len(running))
            else:
                t = what
            t.quantum = quantum
            self._back.clear()
            t.go.set()
            if not self._back.wait(timeout=100):
                raise HarnessError("threads mode: task thread did not yield within 100 s")
            if t.finished:
                t.thread.join(timeout=10)
                running.remove(t)
                remaining.discard(t.key)
                if t.exc is not None:
                    if failure is None:
                        failure = t.exc
                    continue
                store[t.key] = t.value
                done.add(t.key)
                for dep in dependents[t.key]:
                    missing[dep] -= 1
                    if missing[dep] == 0:
                        bisect.insort(ready_sorted, (skey[dep], dep))
                self.stats["tasks"] += 1
                if ndeps[t.key] > 1:
                    self.stats["multi_dep_tasks"] += 1
                self.events.append((self.seq, self._depth, "end:" + str(canon_key(t.key)),
                                    _key_index(t.key), t.preempted, ndeps[t.key]))
                self.seq += 1
            if failure is not None and not running:
                raise failure
        if failure is not None:
            raise failure
        return _unpack(keys, lambda k: store[k])

    # ------------------------------------------------------------------
    def digest(self):
        h = hashlib.blake2b(digest_size=12)
        h.update(repr(self.events).encode())
        return h.hexdigest()

    @contextlib.contextmanager
    def installed(self):
        with dask.config.set(scheduler=self.get):
            yield self


# ---------------------------------------------------------------------------
# Pre-emption seam of the `threads` model: sys.monitoring (PEP 669) LINE and INSTRUCTION
# events, enabled *locally* on every code object of the repository for the duration of one
# simulated computation.  (A first version used sys.settrace + frame.f_trace_opcodes; CPython
# then instruments a code object only from its NEXT call on, so the very first call of every
# function in a process saw no opcode events and one seed's schedule depended on what had run
# before in that process - found by the replay-in-a-fresh-interpreter confirmation.)
_MON = sys.monitoring
_TOOL = 3
_TASK_OF_THREAD = {}
_REPO_CODES = {"prefix": None, "codes": []}
_MON_READY = [False]


def _walk_code(code, seen):
    if code in seen:
        return
    seen.add(code)
    for c in code.co_consts:
        if hasattr(c, "co_code"):
            _walk_code(c, seen)


def _repo_code_objects(prefix):
    """Every code object defined in modules under `prefix` (functions, methods, nested)."""
    if _REPO_CODES["prefix"] == prefix:
        return _REPO_CODES["codes"]
    import types

    seen = set()
    for mod in list(sys.modules.values()):
        f = getattr(mod, "__file__", None)
        if not f or not os.path.realpath(f).startswith(prefix):
            continue
        for obj in list(vars(mod).values()):
            objs = [obj]
            if isinstance(obj, type) and getattr(obj, "__module__", None) == mod.__name__:
                objs = list(vars(obj).values())
            for o in objs:
                if isinstance(o, property):
                    cand = [o.fget, o.fset, o.fdel]
                elif isinstance(o, (staticmethod, classmethod)):
                    cand = [o.__func__]
                else:
                    cand = [o]
                for fn in cand:
                    code = getattr(fn, "__code__", None)
                    if isinstance(code, types.CodeType) and \
                            os.path.realpath(code.co_filename).startswith(prefix):
                        _walk_code(code, seen)
    codes = sorted(seen, key=lambda c: (c.co_filename, c.co_firstlineno, c.co_name))
    _REPO_CODES["prefix"], _REPO_CODES["codes"] = prefix, codes
    return codes


def _on_line(code, line):
    t = _TASK_OF_THREAD.get(threading.get_ident())
    if t is not None:
        t.on_line(code, line)


def _on_instruction(code, offset):
    t = _TASK_OF_THREAD.get(threading.get_ident())
    if t is not None:
        t.on_instruction(code, offset)


def _monitoring_on(prefix):
    if not _MON_READY[0]:
        if _MON.get_tool(_TOOL) is None:
            _MON.use_tool_id(_TOOL, "verif-dst-threads")
        _MON.register_callback(_TOOL, _MON.events.LINE, _on_line)
        _MON.register_callback(_TOOL, _MON.events.INSTRUCTION, _on_instruction)
        _MON_READY[0] = True
    ev = _MON.events.LINE | _MON.events.INSTRUCTION
    for code in _repo_code_objects(prefix):
        _MON.set_local_events(_TOOL, code, ev)


def _monitoring_off(prefix):
    for code in _repo_code_objects(prefix):
        _MON.set_local_events(_TOOL, code, 0)


class _TaskThread:
    """One task of the graph, executed in its own thread under the scheduler's baton."""

    def __init__(self, sim, key, node, inputs):
        self.sim, self.key, self.node, self.inputs = sim, key, node, inputs
        self.go = threading.Event()
        self.finished = False
        self.exc = None
        self.value = None
        self.quantum = 0
        self.preempted = 0
        self.kill = False
        self.last = None  # (code, line) of the line event seen last in this thread
        self.thread = threading.Thread(target=self._body, daemon=True)
        self.thread.start()

    def _body(self):
        self.go.wait()
        self.go.clear()
        _TASK_OF_THREAD[threading.get_ident()] = self
        try:
            self.value = self.node(self.inputs)
        except BaseException as e:  # delivered to the caller of compute(), as dask does
            self.exc = e
        finally:
            _TASK_OF_THREAD.pop(threading.get_ident(), None)
            self.finished = True
            self.sim._back.set()

    def _yield(self):
        self.preempted += 1
        self.sim.stats["preemptions"] += 1
        self.sim._back.set()
        self.go.wait()
        self.go.clear()
        if self.kill:
            self.kill = None  # (once)
            raise InjectedTaskFailure("inside " + str(canon_key(self.key)))

    def on_instruction(self, code, offset):
        if self.quantum <= -11 and _op_at(code, offset) in _STORE_OPS:
            self.quantum += 1
            if self.quantum == -10:
                self.sim.stats["opcode_preemptions"] = self.sim.stats.get("opcode_preemptions", 0) + 1
                self._yield()

    def on_line(self, code, line):
        last, self.last = self.last, (code, line)
        if self.quantum <= -10:
            return  # bytecode hunting: line events do not count
        if self.quantum < 0:
            # hunting: count only points that directly follow an attribute / item store
            if last is not None and last[1] in _store_lines(last[0]):
                self.quantum += 1
                stop = self.quantum == 0
            else:
                stop = False
        else:
            self.quantum -= 1
            stop = self.quantum <= 0
        if stop:
            self._yield()


def _key_index(k):
    if isinstance(k, tuple):
        return tuple(k[1:])
    return ()


def _flatten(keys):
    if isinstance(keys, (list, tuple)) and not _is_key(keys):
        for k in keys:
            yield from _flatten(k)
    else:
        yield keys


def _is_key(k):
    # dask keys: str | bytes | int | float | tuple whose first element is str
    if isinstance(k, (str, bytes, int, float)):
        return True
    if isinstance(k, tuple) and k and isinstance(k[0], (str, bytes)):
        return True
    return False


def _unpack(keys, fetch):
    if isinstance(keys, list):
        return [_unpack(k, fetch) for k in keys]
    if isinstance(keys, tuple) and not _is_key(keys):
        return tuple(_unpack(k, fetch) for k in keys)
    return fetch(keys)


def make_sim(sched, replay=None):
    """Build a SimScheduler from a schedule-config dict.

    sched = {"mode":..., "policy":..., "workers":..., "stall_p":..., "seed":...}
    replay: recorded choice list (overrides the seed/policy draws).
    """
    ch = Choices(seed=sched.get("seed", 0), replay=replay)
    return SimScheduler(mode=sched.get("mode", "shared"),
                        policy=sched.get("policy", "random"),
                        n_workers=sched.get("workers", 2),
                        stall_p=sched.get("stall_p", 0.3),
                        choices=ch, fail_after=sched.get("fail_after"),
                        fail_mid=bool(sched.get("fail_mid")))


def gen_sched(rng, modes=ALL_MODES):
    """Swarm-style draw of an executor model and policy."""
    modes = list(modes)
    mode = rng.choices(modes, [2 if m == "threads" else 3 for m in modes])[0]
    if os.environ.get("VERIF_FORCE_MODE") in ALL_MODES:  # targeted exploration / self-tests
        mode = os.environ["VERIF_FORCE_MODE"]
    r = rng.random()
    if r < 0.6:
        policy = "random"
    elif r < 0.7:
        policy = "fifo"
    elif r < 0.8:
        policy = "lifo"
    elif r < 0.9:
        policy = "stall"
    else:
        policy = rng.choice(["reduce_last", "reduce_first"])
    return {"mode": mode, "policy": policy, "workers": rng.randint(1, 4),
            "stall_p": rng.choice([0.2, 0.5, 0.8]), "seed": rng.getrandbits(32)}
