"""Independent reference model of a diagonal-covariance GMM's sufficient statistics.

Computed in numpy.longdouble from the machine's *visible* weights, means and variances
only; no repo function, no cached normaliser or log-weight is used.
"""
import numpy as np

LD = np.longdouble


def ref_stats(weights, means, variances, X):
    w = np.asarray(weights, dtype=LD)
    mu = np.asarray(means, dtype=LD)
    var = np.asarray(variances, dtype=LD)
    X = np.atleast_2d(np.asarray(X, dtype=LD))
    n_rows, d = X.shape
    c = mu.shape[0]
    two_pi = LD(2) * np.arccos(LD(-1))
    with np.errstate(all="ignore"):
        logw = np.log(w)
        comp = np.empty((c, n_rows), dtype=LD)
        for k in range(c):
            z = ((X - mu[k]) ** 2 / var[k]).sum(axis=1)
            norm = LD(d) * np.log(two_pi) + np.log(var[k]).sum()
            comp[k] = logw[k] - LD(0.5) * (norm + z)
        mx = comp.max(axis=0)
        mx_safe = np.where(np.isfinite(mx), mx, LD(0))
        ll = mx_safe + np.log(np.exp(comp - mx_safe).sum(axis=0))
        resp = np.exp(comp - ll[None, :])
    return {
        "t": n_rows,
        "n": resp.sum(axis=1),
        "sum_px": resp @ X,
        "sum_pxx": resp @ (X * X),
        "log_likelihood": ll.sum(),
        "ll_per_sample": ll,
        "resp": resp,
    }
