"""Small helpers shared by all property modules: comparison, digests, JSON."""
import hashlib
import json
import math

import numpy as np


def A(x):
    """list (from a case) -> float ndarray."""
    return np.array(x, dtype=float)


def L(a):
    """ndarray -> nested list (JSON-able, exact round trip through repr)."""
    return np.asarray(a).tolist()


def sig6(a):
    """Round to 6 significant digits (keeps replay files small and exact)."""
    a = np.asarray(a, dtype=float)
    with np.errstate(all="ignore"):
        mag = np.where(a == 0, 1.0, 10.0 ** np.floor(np.log10(np.abs(np.where(a == 0, 1.0, a)))))
    return np.round(a / mag, 5) * mag


def rel_diff(a, b, scale=0.0):
    """max |a-b| / max(|a|,|b|,scale); inf if shapes or NaN/inf patterns differ."""
    a = np.asarray(a, dtype=float)
    b = np.asarray(b, dtype=float)
    if a.shape != b.shape:
        return math.inf
    if a.size == 0:
        return 0.0
    fa, fb = np.isfinite(a), np.isfinite(b)
    if not np.array_equal(fa, fb):
        return math.inf
    if not fa.all():
        # non-finite entries must be identical (nan==nan, inf==inf with sign)
        na, nb = a[~fa], b[~fb]
        same = (np.isnan(na) & np.isnan(nb)) | (na == nb)
        if not same.all():
            return math.inf
        a, b = a[fa], b[fb]
        if a.size == 0:
            return 0.0
    den = np.maximum(np.maximum(np.abs(a), np.abs(b)), scale)
    den = np.where(den == 0, 1.0, den)
    return float(np.max(np.abs(a - b) / den))


def bits_equal(a, b):
    a = np.asarray(a)
    b = np.asarray(b)
    return a.shape == b.shape and a.dtype == b.dtype and a.tobytes() == b.tobytes()


def digest(*objs):
    h = hashlib.blake2b(digest_size=12)
    for o in objs:
        _feed(h, o)
    return h.hexdigest()


def _feed(h, o):
    if isinstance(o, np.ndarray):
        h.update(b"A")
        h.update(str(o.dtype).encode())
        h.update(str(o.shape).encode())
        h.update(np.ascontiguousarray(o).tobytes())
    elif isinstance(o, (list, tuple)):
        h.update(b"L%d" % len(o))
        for x in o:
            _feed(h, x)
    elif isinstance(o, dict):
        h.update(b"D%d" % len(o))
        for k in sorted(o, key=str):
            _feed(h, str(k))
            _feed(h, o[k])
    elif isinstance(o, (np.generic,)):
        _feed(h, np.asarray(o))
    elif isinstance(o, float):
        h.update(b"F" + np.float64(o).tobytes())
    elif o is None or isinstance(o, (int, str, bool)):
        h.update(repr(o).encode())
    elif isinstance(o, bytes):
        h.update(b"B" + o)
    else:
        h.update(repr(type(o)).encode())
        d = getattr(o, "__dict__", None)
        if d is not None:
            _feed(h, d)


def case_digest(case):
    return hashlib.blake2b(json.dumps(case, sort_keys=True, default=str).encode(),
                           digest_size=12).hexdigest()


def compositions(n):
    """All 2^(n-1) compositions of n into positive parts (as tuples)."""
    out = []
    for mask in range(1 << (n - 1)):
        parts, cur = [], 1
        for i in range(n - 1):
            if mask >> i & 1:
                parts.append(cur)
                cur = 1
            else:
                cur += 1
        parts.append(cur)
        out.append(tuple(parts))
    return out


def random_composition(rng, n, k=None):
    """Random composition of n into k (or random number of) positive parts."""
    if n <= 1:
        return [n] if n else []
    if k is None:
        k = rng.randint(1, min(n, 10))
    k = max(1, min(k, n))
    cuts = sorted(rng.sample(range(1, n), k - 1))
    parts = [b - a for a, b in zip([0] + cuts, cuts + [n])]
    return parts


class Result(dict):
    """status: ok | skip | violation"""

    @classmethod
    def ok(cls, **kw):
        return cls(status="ok", **kw)

    @classmethod
    def skip(cls, reason, **kw):
        return cls(status="skip", reason=reason, **kw)

    @classmethod
    def violation(cls, clause, detail, **kw):
        return cls(status="violation", clause=clause, detail=detail, **kw)


def is_harness_bug(e):
    """A NameError / UnboundLocalError / ImportError raised by a line of the harness itself (not
    inside the repository or a dependency) is a bug of the harness: it must surface as such
    instead of being taken for 'the call under test was refused'."""
    import os
    if not isinstance(e, (NameError, UnboundLocalError, ImportError, SyntaxError)):
        return False
    tb = e.__traceback__
    last = None
    while tb is not None:
        last = tb
        tb = tb.tb_next
    here = os.path.dirname(os.path.abspath(__file__))
    return last is not None and os.path.abspath(last.tb_frame.f_code.co_filename).startswith(here)
