"""C04 — array training is independent of chunking, task order and worker isolation.

Simulated system: the real ``fit`` of every array trainer on
``da.from_array(X, chunks=...)`` executed by SimScheduler, compared with the
same estimator trained on the NumPy array in-process (DESIGN.md §5.2).
"""
import itertools

import dask
import dask.array as da
import numpy as np

from ..sim import gen_sched, MODES, HarnessError
from ..util import A, L, Result, rel_diff, sig6, compositions, random_composition, is_harness_bug
from .common import SimRec, gen_data, gen_simplex, trim, drop_row_chunks, tail

ID = "C04"
CHUNK = 12
BUDGET = {"quick": 70, "thorough": 900}
MAX_RUNS = {"quick": 6000, "thorough": 600000}
TOL = 1e-8
TOL_MODES = 1e-12

RULE = (
    "One run = one (estimator kind in {k-means, GMM-ML, GMM-MAP, k-means-initialised GMM, ISV and "
    "JFA from labelled arrays, WCCN, whitening}, configuration incl. rarely used options (pinv, "
    "mean_var_update_threshold, ubm_kwargs), data set (2..300 rows, float64 / float32 / integer "
    "valued, C / Fortran / strided layout), row chunking (1..160 blocks, single-row, very uneven), "
    "feature chunking, unknown chunk sizes (lazy row filter; GMM kinds), label container and "
    "dtype, refit of the same estimator object, executor model in {shared, isolated, placed(W), "
    "threads(T)}, scheduling policy) drawn from blake2b(VERIF_SEED/i). The real fit() runs on the "
    "Dask array under SimScheduler and is compared with the in-memory fit of the same tree "
    "(model, criterion, thresholded stop) and, in half of the runs, across executor models. "
    "Fixed cases: every row composition of n<=5 (thorough n<=7) rows x 3 executor models x "
    "{k-means, GMM-ML, GMM-MAP}; a fault-free sub-batch (one block, shared, fifo); many-block "
    "layouts (15..257 blocks, thorough ..513) for seven kinds. Non-trivial = at least one real "
    "scheduling/placement/pre-emption choice; distinct = distinct (case digest, event-log + "
    "result digest)."
)
ASSUMPTIONS = [
    "SimScheduler models Dask's synchronous/threaded (shared), multiprocessing (isolated) and "
    "distributed (placed) executors; cloudpickle stands for the wire format",
    "in-memory fit of the same tree is the reference (a change that alters both paths "
    "identically is not a C04 violation)",
    "tolerance 1e-8 relative to the data scale (1e-12 between executor models); discrete "
    "decisions that rounding may flip (k-means near-ties, convergence value within a factor 2 "
    "of the threshold, variances below 1e-6*scale^2) are preconditions and counted as skips",
]
COMPONENTS = {
    "real": ["bob.learn.em (all modules, from VERIF_REPO/src)", "dask graph construction "
             "(delayed, array, persist, to_delayed, optimize)", "dask_ml k_init", "cloudpickle"],
    "stub": ["Dask scheduler / workers / transport (SimScheduler)"],
}

KINDS = ["kmeans", "gmm_ml", "gmm_map", "gmm_kminit", "isv", "jfa", "wccn", "whitening"]
KIND_W = [30, 20, 12, 10, 8, 6, 7, 7]
THRS = [None, None, 0.0, 1e-5, 1e-3, 1e-2, 0.3]


def setup():
    pass


# ---------------------------------------------------------------------------
# generation
# ---------------------------------------------------------------------------
def _gen_chunks(rng, n, many=False):
    r = rng.random()
    if many and n > 12:
        return random_composition(rng, n, rng.randint(11, min(n, 160)))
    if r < 0.08:
        return [n]
    if r < 0.16:
        return [1] * n
    if r < 0.3 and n >= 6:  # very uneven
        small = rng.randint(1, 2)
        return [small, n - small] if rng.random() < 0.5 else [n - small, small]
    return random_composition(rng, n)


def _gmm_params(rng, X, c):
    n, d = X.shape
    rs = np.random.RandomState(rng.getrandbits(32))
    idx = rs.choice(n, size=c, replace=n < c)
    spread = X.std(axis=0) + 1e-3 * (np.abs(X).max(axis=0) + 1e-12)
    means = X[idx] + rs.randn(c, d) * 0.1 * spread
    variances = (spread ** 2) * rs.uniform(0.5, 2.0, size=(c, d))
    means, variances, weights = sig6(means), sig6(variances), gen_simplex(rng, c)
    if c >= 2 and rng.random() < 0.06:
        # two identical components: every sample's responsibilities tie exactly
        a, b = rng.sample(range(c), 2)
        means[b], variances[b], weights[b] = means[a], variances[a], weights[a]
    return means, variances, weights


def gen_case(rng, tier, kind=None):
    kind = kind or rng.choices(KINDS, KIND_W)[0]
    big = rng.random() < (0.3 if tier == "thorough" else 0.06)
    huge = big and rng.random() < 0.3
    case = {"kind": kind}
    if kind in ("kmeans", "gmm_ml", "gmm_map", "gmm_kminit"):
        n = rng.randint(2, (300 if huge else 80) if big else 30)
        d = tail(rng, 1, 6 if big else 4, [9, 17, 33, 65], 0.03)
        rows_tail = rng.random() < 0.025
        if rows_tail:  # blocks / data sets of thousands of rows
            n, d = rng.choice([1025, 2500, 4097, 5000]), rng.randint(1, 3)
        X = gen_data(rng, n, d)
        if rng.random() < 0.06:  # integer-valued (still valid) training data
            X = np.round(X / (np.abs(X).max() or 1.0) * 50.0)
            case["xint"] = True
        if kind == "kmeans" and not rows_tail and rng.random() < 0.12:
            # quantised data on a small integer grid (pixel positions, counts): samples exactly
            # equidistant from two centroids are common, and every sum is exact
            d = min(d, rng.randint(1, 2))
            rs_ = np.random.RandomState(rng.getrandbits(32))
            step = rng.choice([1.0, 1.0, 0.5, 0.25, 2.0])  # dyadic steps keep every sum exact
            X = rs_.randint(-3, 4, size=(n, d)).astype(float) * step
            case["grid"] = step
        case["X"] = L(X)
        case["chunks"] = _gen_chunks(rng, n, many=huge)
        if rows_tail:
            case["chunks"] = random_composition(rng, n, rng.randint(1, 3))
        if rng.random() < 0.15:
            case["refit"] = True  # the same estimator object is trained a second time
            if rng.random() < 0.15 and n <= 40:
                case["refit_n"] = rng.randint(6, 40)
            # ... possibly through a Dask array that carries the same (explicit) name as the
            # first one although its content differs (a long-lived array over a store that was
            # refilled, `da.from_array(batch, name="feats")` per batch)
            case["same_name"] = rng.random() < 0.4
        if d >= 2 and rng.random() < 0.12:
            case["fchunks"] = random_composition(rng, d, rng.randint(2, d))
        K = rng.randint(1, 8) if not rows_tail else rng.randint(1, 2)
        if case.get("refit_n"):
            # dozens of refits stay cheap: few iterations, few blocks
            K = min(K, 2)
            if kind != "kmeans":
                # a GMM continues from its state: rounding differences between the two paths
                # grow with every EM step, and the tolerance was set for about eight of them
                # (a 36-fold refit of 2 steps reached 1.5e-8 at seed 97) - keep the total there
                K = 1
                case["refit_n"] = min(case["refit_n"], 9)
            if len(case["chunks"]) > 4:
                case["chunks"] = random_composition(rng, n, rng.randint(1, 4))
        case["K"] = K
        case["thr"] = rng.choice(THRS)
        if kind == "kmeans":
            k = min(n, tail(rng, 1, min(8 if big else 4, n), [9, 17, 33], 0.04))
            r = rng.random()
            if case.get("grid"):
                r = 0.0
            if r < 0.7:
                rs = np.random.RandomState(rng.getrandbits(32))
                idx = rs.choice(n, size=k, replace=False)
                init = sig6(X[idx] + rs.randn(k, d) * 0.05 * (X.std(axis=0) + 1e-9))
                if case.get("grid"):
                    init = rs.randint(-3, 4, size=(k, d)).astype(float) * case["grid"]
                if k > 1 and rng.random() < 0.08:
                    # a centroid far from all data: its cluster stays empty
                    init[-1] = init[-1] + 1e3 * (np.abs(X).max() + 1.0)
                init = L(init)
            elif r < 0.88:
                init = "random"
            else:
                # ("k-means++" is not generated: dask_ml's wrapper does not match the
                # installed scikit-learn's private _kmeans_plusplus signature)
                init = "k-means||"
            if r >= 0.7:
                case["K"] = min(case["K"], 3)
            case["cfg"] = {"k": k, "init": init, "rs": rng.randint(0, 1000)}
        else:
            c = min(n, tail(rng, 1, min(6 if big else 3, n), [9, 17, 33, 65], 0.04))
            means, variances, weights = _gmm_params(rng, X, c)
            cfg = {"c": c, "means": L(means), "variances": L(variances), "weights": L(weights),
                   "um": rng.random() < 0.8, "uv": rng.random() < 0.5, "uw": rng.random() < 0.5}
            if cfg["uv"] or kind == "gmm_kminit":
                # an explicit floor well above rounding noise keeps clamping decisions
                # identical in both paths; the default (machine epsilon) floor is kept
                # in a fraction of the runs and guarded by the degenerate-variance skip
                smax = float(np.abs(X).max()) or 1.0
                cfg["vfloor"] = None if rng.random() < 0.2 else \
                    float(sig6(rng.choice([1e-3, 1e-2]) * smax * smax))
            elif rng.random() < 0.2:
                smax = float(np.abs(X).max()) or 1.0
                cfg["vfloor"] = float(sig6(rng.choice([1e-3, 1e-2]) * smax * smax))
            if cfg.get("vfloor") is not None and kind != "gmm_kminit" and rng.random() < 0.35:
                # floors given per feature or per component and feature
                rs_ = np.random.RandomState(rng.getrandbits(32))
                shape = (d,) if rng.random() < 0.5 else (c, d)
                cfg["vfloor"] = L(sig6(cfg["vfloor"] * rs_.uniform(0.5, 2.0, size=shape)))
            if rng.random() < 0.1:
                cfg["mvut"] = rng.choice([1e-3, 0.5, 2.0])  # mean_var_update_threshold
            if kind == "gmm_map":
                cfg["map_own_floor"] = rng.random() < 0.5
                cfg["rf"] = rng.choice([None, 0.5, 4.0, 16.0])
                cfg["alpha"] = rng.choice([0.1, 0.5, 0.9])
                if rng.random() < 0.2:  # per-component adaptation ratios (array form)
                    cfg["alpha"] = [rng.choice([0.0, 0.1, 0.5, 0.9, 1.0]) for _ in range(c)]
            if kind == "gmm_kminit":
                cfg["km_iter"] = rng.randint(0, 4)
                cfg["km_thr"] = rng.choice([None, 1e-5])
                case["K"] = rng.randint(0, 3)
            case["cfg"] = cfg
    elif kind in ("isv", "jfa"):
        nc = tail(rng, 2, 7 if big else 4, [9, 17, 33, 65, 70], 0.05)
        n = rng.randint(nc, max(nc + 4, 60 if big else 18))
        if rng.random() < 0.03:  # a class with hundreds of samples
            nc, n = rng.randint(2, 3), rng.choice([300, 600, 1100])
        d = rng.randint(1, 3)
        X = gen_data(rng, n, d)
        y = list(range(nc)) + [rng.randrange(nc) for _ in range(n - nc)]
        rng.shuffle(y)
        if rng.random() < 0.15:
            case["refit"] = True
        c = rng.randint(1, 3 if big else 2)
        means, variances, weights = _gmm_params(rng, X, c)
        case.update(X=L(X), y=y, chunks=_gen_chunks(rng, n), yform=rng.choice(["array", "list", "dask"]),
                    cfg={"c": c, "means": L(means), "variances": L(variances), "weights": L(weights),
                         "rU": tail(rng, 1, 3, [5, 9], 0.04), "rV": tail(rng, 1, 3, [5, 9], 0.04),
                         "it": rng.randint(1, 4),
                         "rf": rng.choice([4.0, 1.0, 10.0]), "rs": rng.randint(0, 1000),
                         "ubm_kwargs": rng.random() < 0.12})
        if rng.random() < 0.1 and n >= 4 * c:
            case["cfg"]["ubm_kwargs"] = "kmeans_random"
    else:  # wccn / whitening
        d = rng.randint(1 if kind == "wccn" else 2, 4)
        nc = rng.randint(1, 6 if big else 3)
        n = rng.randint(d + nc + 2, d + nc + (150 if big else 25))
        if kind == "wccn" and rng.random() < 0.08:
            nc = rng.choice([17, 33, 65, 128, 130, 200])
            n = nc * 2 + rng.randint(d + 3, d + 20)
        rs = np.random.RandomState(rng.getrandbits(32))
        mix = rs.randn(d, d) + 2 * np.eye(d)
        X = rs.randn(n, d) @ mix * 10.0 ** rng.uniform(-1, 1) + rs.uniform(-2, 2, size=d)
        if rng.random() < 0.12:
            # features with a large offset relative to their spread (raw counts, timestamps):
            # harmless for a two-pass covariance, fatal for a one-pass one
            X = X + 10.0 ** rng.uniform(3, 6) * (np.abs(X).std() + 1e-9) * rs.choice([-1, 1], size=d)
            case["large_offset"] = True
        if not case.get("large_offset") and rng.random() < 0.12:
            # physical units far from 1 (volts as 1e-8, counts as 1e+8): the model is equivariant,
            # anything absolute inside the code is not
            X = X * 10.0 ** rng.choice([-8, -6, -4, 4, 6, 8])
            case["extreme_scale"] = True
        X = np.asarray([[float(f"{v:.12g}") for v in row] for row in X])
        case.update(X=L(X), chunks=_gen_chunks(rng, n, many=huge), cfg={"pinv": rng.random() < 0.15})
        if nc > 16:  # the per-class Dask graph is large: keep the number of blocks small
            case["chunks"] = random_composition(rng, n, rng.randint(1, 6))
        if kind == "wccn":
            y = [i % nc for i in range(n)]
            rng.shuffle(y)
            case["y"] = y
            case["yform"] = rng.choice(["array", "list"])
    if kind in ("kmeans", "gmm_ml", "gmm_map", "gmm_kminit", "whitening") and not case.get("nan_mask") \
            and rng.random() < 0.08:
        # blocks without rows (concatenation of per-file arrays, one file empty)
        ch = list(case["chunks"])
        for _ in range(rng.randint(1, 2)):
            ch.insert(rng.randint(0, len(ch)), 0)
        case["chunks"] = ch
    # valid-but-unusual input forms: Fortran order, a strided view of a larger buffer,
    # single precision, and (for labelled kinds) other integer label containers
    r = rng.random()
    if r < 0.06:
        case["xform"] = "fortran"
    elif r < 0.12:
        case["xform"] = "strided"
    elif r < 0.16 and kind in ("kmeans", "gmm_ml", "gmm_map"):
        case["xform"] = "float32"
        case["K"] = min(case.get("K", 1), 3)
    elif r < 0.22 and kind in ("kmeans", "gmm_ml", "gmm_map", "gmm_kminit") \
            and isinstance(case["cfg"].get("init", []), list):
        # narrow integer data (8-bit images, 16-bit audio): still valid training data
        case["xform"] = rng.choice(["uint8", "int8", "int16", "uint16"])
        Xi = A(case["X"])
        info = np.iinfo(getattr(np, case["xform"]))
        lo, hi = Xi.min(), Xi.max()
        Xi = np.round((Xi - lo) / ((hi - lo) or 1.0) * (info.max - info.min) * 0.98 + info.min * 0.98)
        case["X"] = L(Xi)
        smax = float(np.abs(Xi).max()) or 1.0
        cfg = case["cfg"]
        if kind == "kmeans":
            cfg["init"] = L(Xi[: cfg["k"]] + 0.25)
        else:
            cfg["means"] = L(Xi[: cfg["c"]] + 0.25)
            cfg["variances"] = L(np.full((cfg["c"], Xi.shape[1]), (smax * 0.3) ** 2))
            if cfg.get("vfloor") is not None:
                cfg["vfloor"] = float(sig6(1e-3 * smax * smax))
    if kind in ("gmm_ml", "gmm_map") and not case.get("fchunks") and rng.random() < 0.12:
        # a lazily row-filtered array: Dask does not know its chunk sizes (nan). GMM training
        # accepts such arrays (k-means, WCCN, whitening and the ISV/JFA array path refuse them
        # with dask's own "unknown chunk sizes" error and are therefore not given any)
        n_rows = len(case["X"])
        mask = [True] * n_rows + [False] * rng.randint(1, n_rows)
        rng.shuffle(mask)
        case["nan_mask"] = mask
        case["nan_chunks"] = random_composition(rng, len(mask), rng.randint(1, min(len(mask), 8)))
    if not case.get("nan_mask") and not case.get("fchunks") and rng.random() < 0.06:
        # the Dask array is assembled from delayed per-block loaders (one delayed object per file)
        case["from_delayed"] = True
    if rng.random() < 0.08:
        case["failed_first"] = rng.choice([0, 1, 2, 3, 5, 8, 13, 21, 40])
        case["failed_mid"] = rng.random() < 0.5  # (threads: inside a task that is under way)
    elif rng.random() < 0.06:
        case["rejected_first"] = True
    if not case.get("nan_mask") and rng.random() < 0.08:
        # the Dask array is an unevaluated expression (exactly representable: x/2*2), built
        # from two concatenated pieces, rather than a wrapped in-memory array
        case["lazy_expr"] = True
    if "y" in case and rng.random() < 0.2:
        case["ydtype"] = rng.choice(["int32", "int16", "uint8", "tuple"])
    if kind in ("kmeans", "gmm_ml", "gmm_map") and case.get("thr") not in (None, 0.0) \
            and rng.random() < 0.08:
        case["K"] = rng.randint(20, 40)  # a long training that the threshold has to stop
    case["sched"] = gen_sched(rng)
    case["xmodes"] = rng.random() < 0.5
    if rng.random() < 0.12:
        # the estimator that is trained was derived from a template estimator (possibly already
        # trained the same way) that stays alive and is changed afterwards through public setters
        case["derive"] = {"how": rng.choice(["copy", "copy", "deepcopy"]),
                          "fit_first": rng.random() < 0.5}
    return case


def fixed_cases(tier):
    """Every row composition for small n, three trainers, three executor models."""
    import random

    out = []
    nmax = 7 if tier == "thorough" else 5
    rng = random.Random(20240926)
    for kind in ("kmeans", "gmm_ml", "gmm_map"):
        for n in range(3, nmax + 1):
            base = gen_case(random.Random(f"fixed/{kind}/{n}"), "quick", kind=kind)
            X = A(base["X"])
            if X.shape[0] < n:
                X = np.vstack([X] * n)
            X = sig6(X[:n] + np.arange(n)[:, None] * 0.01 * (np.abs(X).max() + 1.0))
            base["X"] = L(X)
            for key in ("fchunks", "nan_mask", "nan_chunks", "xform"):
                base.pop(key, None)
            base["K"] = min(base["K"], 4) or 1
            if kind == "kmeans":
                base["cfg"]["k"] = min(base["cfg"]["k"], 2)
                base["cfg"]["init"] = L(X[: base["cfg"]["k"]] + 0.01)
            else:
                c = base["cfg"]["c"]
                base["cfg"]["means"] = L(X[:c] + 0.01)
            for comp in compositions(n):
                for mode in MODES:
                    cs = dict(base)
                    cs["chunks"] = list(comp)
                    cs["xmodes"] = False
                    cs["sched"] = {"mode": mode, "policy": "random", "workers": 2,
                                   "stall_p": 0.5, "seed": rng.getrandbits(32)}
                    out.append(cs)
    # fault-free sub-batch: one block, shared memory, fifo order. A violation here is not
    # attributable to chunking, scheduling or isolation
    for kind in KINDS:
        for j in range(3):
            r0 = random.Random(f"fixeddegenerate/{kind}/{j}")
            cs = gen_case(r0, "quick", kind=kind)
            cs["chunks"] = [len(cs["X"])]
            cs.pop("fchunks", None)
            cs.pop("nan_mask", None)
            cs.pop("nan_chunks", None)
            cs["xmodes"] = False
            cs["fault_free"] = True
            cs["sched"] = {"mode": "shared", "policy": "fifo", "workers": 1, "stall_p": 0.0, "seed": 0}
            out.append(cs)
    # many blocks: counts around powers of two (reductions that work in groups change
    # behaviour exactly there), single-row and uneven layouts
    counts = [15, 17, 31, 33, 63, 65, 100, 127, 129, 257] if tier == "quick" else \
        [15, 16, 17, 31, 32, 33, 63, 64, 65, 100, 127, 128, 129, 200, 255, 256, 257, 300, 513,
         1025, 2049]
    for kind in ("kmeans", "gmm_ml", "gmm_map", "gmm_kminit", "whitening", "wccn", "isv"):
        for nb in counts:
            if kind in ("isv",) and nb > 70:
                continue
            if kind in ("wccn", "whitening", "gmm_kminit") and nb > 600:
                continue
            r2 = random.Random(f"fixedmany/{kind}/{nb}")
            base = gen_case(r2, "quick", kind=kind)
            n = nb + r2.randint(0, nb // 2)
            reps = -(-n // len(base["X"]))
            X = np.vstack([A(base["X"])] * reps)[:n]
            X = sig6(X * (1 + 0.01 * np.random.RandomState(nb).randn(*X.shape)))
            base["X"] = L(X)
            if "y" in base:
                nc = len(set(base["y"]))
                base["y"] = [i % nc for i in range(n)]
            base["chunks"] = random_composition(r2, n, nb)
            for key in ("fchunks", "nan_mask", "nan_chunks", "xform"):
                base.pop(key, None)
            base["K"] = min(base.get("K", 1), 2) if kind != "gmm_kminit" else 1
            if kind == "kmeans" and not isinstance(base["cfg"]["init"], list):
                base["cfg"]["init"] = L(X[: base["cfg"]["k"]] * 1.01)
            base["xmodes"] = False
            base["sched"] = {"mode": r2.choice(list(MODES)), "policy": "random", "workers": 3,
                             "stall_p": 0.5, "seed": r2.getrandbits(32)}
            out.append(base)
    if tier == "thorough":
        # very large row counts in few blocks (per-block code paths that switch on size)
        for kind in ("kmeans", "gmm_ml", "gmm_kminit", "whitening"):
            for n in (10000, 20000, 66000):
                r2 = random.Random(f"fixedrows/{kind}/{n}")
                base = gen_case(r2, "quick", kind=kind)
                d = len(base["X"][0])
                rs = np.random.RandomState(n)
                X = sig6(np.vstack([A(base["X"])] * (-(-n // len(base["X"]))))[:n]
                         * (1 + 0.01 * rs.randn(n, d)))
                base["X"] = L(X)
                for key in ("fchunks", "nan_mask", "nan_chunks", "xform", "refit"):
                    base.pop(key, None)
                base["chunks"] = random_composition(r2, n, r2.randint(2, 3))
                base["K"] = 1
                base["thr"] = None
                if kind == "kmeans" and not isinstance(base["cfg"]["init"], list):
                    base["cfg"]["init"] = L(X[: base["cfg"]["k"]] * 1.01)
                base["xmodes"] = False
                base["sched"] = {"mode": "shared", "policy": "random", "workers": 2,
                                 "stall_p": 0.5, "seed": r2.getrandbits(32)}
                out.append(base)
    return out


def exhaustive_note(tier):
    nmax = 7 if tier == "thorough" else 5
    return (f"all 2^(n-1) row compositions for n=3..{nmax} x {{shared,isolated,placed}} x "
            "{kmeans,gmm_ml,gmm_map} are enumerated as fixed cases; exhaustive in that "
            "dimension only (one data set and one random schedule per cell). Plus fixed "
            "many-block cases (15..257 row blocks, thorough ..513) for seven estimator kinds.")


def sample_view(case):
    return trim(case)


# ---------------------------------------------------------------------------
# estimator factories
# ---------------------------------------------------------------------------
def _vf(cfg):
    v = cfg["vfloor"]
    return A(v) if isinstance(v, list) else v


def _mk_ubm(cfg):
    from bob.learn.em import GMMMachine

    g = GMMMachine(cfg["c"])
    if cfg.get("vfloor") is not None:
        g.variance_thresholds = _vf(cfg)
    g.means = A(cfg["means"])
    g.variances = A(cfg["variances"])
    g.weights = A(cfg["weights"])
    return g


def _make(case, max_steps, thr):
    from bob.learn.em import GMMMachine, KMeansMachine, ISVMachine, JFAMachine, WCCN, Whitening

    kind, cfg = case["kind"], case["cfg"]
    if kind == "kmeans":
        init = cfg["init"]
        if isinstance(init, list):
            init = A(init)
        return KMeansMachine(n_clusters=cfg["k"], init_method=init, convergence_threshold=thr,
                             max_iter=max_steps, random_state=cfg["rs"])
    if kind in ("gmm_ml", "gmm_map", "gmm_kminit"):
        kw = dict(convergence_threshold=thr, max_fitting_steps=max_steps,
                  update_means=cfg["um"], update_variances=cfg["uv"], update_weights=cfg["uw"])
        if cfg.get("mvut") is not None:
            kw["mean_var_update_threshold"] = cfg["mvut"]
        if kind == "gmm_map":
            prior = _mk_ubm(cfg)
            alpha = A(cfg["alpha"]) if isinstance(cfg["alpha"], list) else cfg["alpha"]
            g = GMMMachine(cfg["c"], trainer="map", ubm=prior, map_alpha=alpha,
                           map_relevance_factor=cfg["rf"], **kw)
            if cfg.get("vfloor") is not None and cfg.get("map_own_floor"):
                g.variance_thresholds = _vf(cfg)
            return g
        if kind == "gmm_kminit":
            km = KMeansMachine(cfg["c"], init_method=A(cfg["means"]), max_iter=cfg["km_iter"],
                               convergence_threshold=cfg["km_thr"])
            g = GMMMachine(cfg["c"], k_means_trainer=km, **kw)
            if cfg.get("vfloor") is not None:
                g.variance_thresholds = _vf(cfg)
            return g
        g = GMMMachine(cfg["c"], **kw)
        if cfg.get("vfloor") is not None:
            g.variance_thresholds = _vf(cfg)
        g.means = A(cfg["means"])
        g.variances = A(cfg["variances"])
        g.weights = A(cfg["weights"])
        return g
    if kind in ("isv", "jfa"):
        if cfg.get("ubm_kwargs") == "kmeans_random":
            # the UBM is trained inside fit_using_array, started by a k-means trainer that picks
            # its initial centroids among the rows by position (seeded)
            km = KMeansMachine(cfg["c"], init_method="random", random_state=cfg["rs"], max_iter=0,
                               convergence_threshold=None)
            ukw = dict(ubm=None, ubm_kwargs=dict(n_gaussians=cfg["c"], k_means_trainer=km,
                                                 max_fitting_steps=1, convergence_threshold=None,
                                                 random_state=cfg["rs"]))
        elif cfg.get("ubm_kwargs"):
            # the UBM is trained inside fit_using_array (two ML steps from a given start)
            ukw = dict(ubm=None, ubm_kwargs=dict(n_gaussians=cfg["c"], ubm=_mk_ubm(cfg),
                                                 max_fitting_steps=2, convergence_threshold=None))
        else:
            ukw = dict(ubm=_mk_ubm(cfg))
        if kind == "isv":
            return ISVMachine(cfg["rU"], em_iterations=cfg["it"], relevance_factor=cfg["rf"],
                              random_state=cfg["rs"], **ukw)
        return JFAMachine(cfg["rU"], cfg["rV"], em_iterations=cfg["it"],
                          relevance_factor=cfg["rf"], random_state=cfg["rs"], **ukw)
    if kind == "wccn":
        return WCCN(pinv=bool(cfg.get("pinv")))
    return Whitening(pinv=bool(cfg.get("pinv")))


def _np(x):
    if hasattr(x, "compute"):
        x = x.compute()
    return np.asarray(x, dtype=float)


def _params(kind, m):
    """(name, array, scale-kind) triples of the observable model."""
    if kind == "kmeans":
        return [("centroids", _np(m.centroids_), "s"),
                ("criterion", _np(m.average_min_distance), "s2")]
    if kind.startswith("gmm"):
        return [("means", _np(m.means), "s"), ("variances", _np(m.variances), "s2"),
                ("weights", _np(m.weights), "1")]
    if kind == "isv":
        return [("U", _np(m.U), "rel"), ("D", _np(m.D), "rel")]
    if kind == "jfa":
        return [("U", _np(m.U), "rel"), ("V", _np(m.V), "rel"), ("D", _np(m.D), "rel")]
    return [("weights", _np(m.weights), "rel"), ("input_subtract", _np(m.input_subtract), "s"),
            ("input_divide", _np(m.input_divide), "1")]


def _cmp(pa, pb, s, tol):
    """Return (name, diff) of the worst mismatching parameter, or None."""
    worst = None
    for (na, a, sk), (nb, b, _) in zip(pa, pb):
        if sk == "s":
            sc = s
        elif sk == "s2":
            sc = s * s
        elif sk == "1":
            sc = 1.0
        else:
            # relative to the magnitude of the quantity itself, but never below 1e-6 of the
            # problem scale: a matrix that has collapsed to ~1e-15 is rounding noise, and
            # noise has no stable relative difference
            fa = a[np.isfinite(a)]
            sc = max(float(np.abs(fa).max()) if fa.size else 1.0, 1e-6 * s)
        dv = rel_diff(a, b, scale=sc)
        if dv > tol and (worst is None or dv > worst[1]):
            worst = (na, dv)
    return worst


def _fit(case, m, X):
    if case.get("rejected_first") and X.shape[1] >= 2 and not case.get("nan_mask"):
        # (one feature broadcasts against anything; unknown chunk sizes cannot be concatenated)
        # the caller first passes data of the wrong feature dimension (through the same kind
        # of container), catches the exception if there is one, and then trains properly
        try:
            if isinstance(X, da.Array):
                _fit_once(case, m, da.concatenate([X, X[:, :1]], axis=1))
            else:
                _fit_once(case, m, np.concatenate([X, X[:, :1]], axis=1))
        except HarnessError:
            raise
        except Exception as _e:
            if is_harness_bug(_e):
                raise HarnessError(f"harness bug: {_e!r}")
            pass
    if case.get("derive"):
        m = _derive(case, m, X)
    m = _fit_once(case, m, X)
    if case.get("refit"):
        # a long-lived estimator object trained again (nothing from the first call may leak
        # differently in the two paths) - once, or dozens of times
        Xr = np.ascontiguousarray(_xform(case, A(case["X"]))[::-1])
        X2 = _dask_X(case, Xr, reverse=True) if isinstance(X, da.Array) else Xr
        for rep in range(case.get("refit_n", 1)):
            if rep % 2 == 0:
                m = _fit_once(case, m, X2, reverse=True)
            else:
                m = _fit_once(case, m, X)
    return m


def _derive(case, t, X):
    import copy as _copy
    dv = case["derive"]
    if dv["fit_first"]:
        t = _fit_once(case, t, X)
    m = _copy.copy(t) if dv["how"] == "copy" else _copy.deepcopy(t)
    # the template lives on: its parameters are re-assigned through the public setters
    if case["kind"].startswith("gmm") and getattr(t, "_means", None) is not None:
        t.means = np.array(t.means, float) * 1.5 + 0.25
        t.variances = np.array(t.variances, float) * 2.0
        t.weights = np.array(t.weights, float)[::-1].copy()
    elif case["kind"] in ("isv", "jfa"):
        for nm in ("U", "V", "D"):
            if getattr(t, nm, None) is not None:
                setattr(t, nm, np.array(getattr(t, nm), float) * 2.0 + 0.5)
    return m


def _fit_once(case, m, X, reverse=False):
    kind = case["kind"]
    if kind in ("isv", "jfa"):
        return m.fit_using_array(X, _labels(case, dask=isinstance(X, da.Array), reverse=reverse))
    if kind == "wccn":
        return m.fit(X, _labels(case, dask=False, reverse=reverse))
    return m.fit(X)


def _labels(case, dask, reverse=False):
    y = case["y"][::-1] if reverse else case["y"]
    f = case.get("yform", "array")
    yd = case.get("ydtype")
    if yd == "tuple":
        return tuple(y)
    if yd is not None and f != "dask":
        return np.array(y, dtype=getattr(np, yd))
    if f == "list":
        return list(y)
    if f == "dask" and dask:
        return da.from_array(np.array(y), chunks=max(1, len(y) // 2))
    return np.array(y)


def _dask_X(case, X, reverse=False):
    if case.get("nan_mask") and not reverse:
        mask = np.array(case["nan_mask"])
        big = np.full((len(mask), X.shape[1]), 1e6, dtype=X.dtype)
        big[mask] = X
        bd = da.from_array(big, chunks=(tuple(case["nan_chunks"]), (X.shape[1],)))
        keep = da.from_array(mask, chunks=(tuple(case["nan_chunks"]),))
        return bd[keep]
    chunks = tuple(case["chunks"][::-1] if reverse else case["chunks"])
    if case.get("lazy_expr") and X.dtype.kind == "f" and len(chunks) > 1 and not case.get("fchunks"):
        cut = chunks[0]
        a = da.from_array(X[:cut] * 0.5, chunks=((cut,), (X.shape[1],)))
        b = da.from_array(X[cut:] * 0.5, chunks=(chunks[1:], (X.shape[1],)))
        return da.concatenate([a, b], axis=0) * 2.0
    if case.get("from_delayed") and not case.get("fchunks") and not case.get("same_name"):
        blocks, start = [], 0
        for c in chunks:
            blk = np.ascontiguousarray(X[start:start + c])
            start += c
            blocks.append(da.from_delayed(dask.delayed(np.array)(blk), shape=blk.shape,
                                          dtype=blk.dtype))
        return da.concatenate(blocks, axis=0) if len(blocks) > 1 else blocks[0]
    f = case.get("fchunks")
    kw = {}
    if case.get("same_name"):
        from ..util import case_digest
        kw["name"] = "verif-feats-" + case_digest({"X": case["X"], "c": case["chunks"]})[:10]
    return da.from_array(X, chunks=(chunks, tuple(f) if f else (X.shape[1],)), **kw)


# ---------------------------------------------------------------------------
# the run
# ---------------------------------------------------------------------------
def _xform(case, X):
    f = case.get("xform")
    if f == "fortran":
        return np.asfortranarray(X)
    if f == "strided":
        big = np.zeros((X.shape[0] * 2, X.shape[1] + 1))
        big[::2, :-1] = X
        return big[::2, :-1]
    if f == "float32":
        return X.astype(np.float32)
    if f in ("uint8", "int8", "int16", "uint16"):
        return X.astype(getattr(np, f))
    return X


def run_case(case, replay=None):
    kind = case["kind"]
    X = _xform(case, A(case["X"]))
    # single precision: block-wise and whole-array sums legitimately differ at ~1e-7
    tol = 1e-4 if case.get("xform") == "float32" else TOL
    tol_modes = TOL_MODES

    def fresh():
        return _xform(case, A(case["X"]))

    s = float(np.abs(X).max()) or 1.0
    rec = SimRec(replay)
    iterative = kind in ("kmeans", "gmm_ml", "gmm_map", "gmm_kminit")
    K = case.get("K", 1)
    thr = case.get("thr")
    nblocks = len(case["chunks"])
    rec.probe("multi_row_block", nblocks > 1)
    rec.probe("single_row_block", 1 in case["chunks"] and nblocks > 1)
    rec.probe("zero_row_block", 0 in case["chunks"])
    rec.probe("uneven_blocks", nblocks > 1 and max(case["chunks"]) >= 5 * max(1, min(case["chunks"])))
    rec.probe("feature_chunked", bool(case.get("fchunks")))
    rec.probe("unknown_chunk_sizes", bool(case.get("nan_mask")))
    rec.probe("large_offset_features", bool(case.get("large_offset")))
    rec.probe("data_scaled_by_1e-8_to_1e8", bool(case.get("extreme_scale")))
    rec.probe("lazy_expression_input", bool(case.get("lazy_expr")))
    rec.probe("integer_grid_data_with_exact_ties", bool(case.get("grid")))
    rec.probe("array_from_delayed_blocks", bool(case.get("from_delayed")))
    rec.probe("wrong_dimension_call_before_training", bool(case.get("rejected_first")))
    rec.probe("refit_through_same_named_array", bool(case.get("same_name")))
    rec.probe("mode_" + case["sched"]["mode"])
    rec.probe("fault_free_configuration", bool(case.get("fault_free")))

    sched = case["sched"]

    # ---------------- seeded initialisers: observe the Dask-side initial centroids ------
    # (so that a chunk-dependent *initialisation* is reported as such and everything
    # after the initialisation is still compared exactly)
    init_violation = None
    ref = case
    if kind == "kmeans" and isinstance(case["cfg"]["init"], str):
        try:
            with dask.config.set(scheduler="synchronous"), np.errstate(all="ignore"):
                init_mem = np.asarray(_fit(case, _make(case, 0, None), fresh()).centroids_, float)
            init_dask = rec.run(sched, lambda: np.asarray(
                _fit(case, _make(case, 0, None), _dask_X(case, fresh())).centroids_, float),
                label="init")
        except HarnessError:
            raise
        except Exception as _e:
            if is_harness_bug(_e):
                raise HarnessError(f"harness bug: {_e!r}")
            init_mem = init_dask = None
        if init_mem is not None:
            dv = rel_diff(init_mem, init_dask, scale=s)
            if dv > tol:
                init_violation = Result.violation(
                    "init-chunk-dependent",
                    {"kind": kind, "init": case["cfg"]["init"], "chunks": case["chunks"],
                     "rel_diff": dv, "init_mem": L(init_mem), "init_dask": L(init_dask)})
                ref = dict(case, cfg=dict(case["cfg"], init=L(init_dask)))
                rec.probe("seeded_init_differs")

    # ---------------- in-memory reference ----------------
    mem_exc = None
    traj = []
    try:
        with dask.config.set(scheduler="synchronous"), np.errstate(all="ignore"):
            if iterative:
                lo = 0 if kind == "gmm_kminit" else 1
                for k in range(lo, K + 1):
                    traj.append(_params(kind, _fit(ref, _make(ref, k, None), fresh())))
                mem_cap = traj[-1]
                mem_thr = _params(kind, _fit(ref, _make(ref, K, thr), fresh())) \
                    if thr is not None else None
            else:
                mem_cap = _params(kind, _fit(ref, _make(ref, None, None), fresh()))
                mem_thr = None
    except Exception as e:  # the in-memory path itself refuses this input
        if is_harness_bug(e):
            raise HarnessError(f"harness bug: {e!r}")
        mem_exc = e

    # preconditions on the in-memory trajectory
    skip = None
    if mem_exc is None and iterative:
        with dask.config.set(scheduler="synchronous"):
            skip = _preconditions(ref, X, s, traj, thr)
    if mem_exc is None and kind in ("isv", "jfa") and case["cfg"].get("ubm_kwargs") == "kmeans_random":
        # the UBM's start is a hard assignment of the rows to the picked centroids: near ties,
        # and clusters too small for a variance, are preconditions
        from bob.learn.em import KMeansMachine
        with dask.config.set(scheduler="synchronous"), np.errstate(all="ignore"):
            km = KMeansMachine(case["cfg"]["c"], init_method="random",
                               random_state=case["cfg"]["rs"], max_iter=0,
                               convergence_threshold=None).fit(X.copy())
        cen = np.asarray(km.centroids_, float)
        d2 = ((X[None, :, :] - cen[:, None, :]) ** 2).sum(-1)
        if d2.shape[0] > 1:
            ds = np.sort(d2, axis=0)
            if ((ds[1] - ds[0]) <= 1e-9 * s * s).any():
                skip = "near-tie"
        lab = d2.argmin(axis=0)
        for j in range(d2.shape[0]):
            Xj = X[lab == j]
            if len(Xj) < 2 or (Xj.var(axis=0) < 1e-6 * s * s).any():
                skip = skip or "degenerate-variance"
        rec.probe("ubm_trained_inside_fit_using_array_from_positional_kmeans_start")
    if mem_exc is None and kind in ("wccn", "whitening"):
        w = mem_cap[0][1]
        if not np.isfinite(w).all():
            skip = "nonfinite-reference"
        else:
            # inverse + Cholesky amplify rounding by the condition number of the scatter:
            # beyond 1e6 a block-wise and a whole-array mean/covariance legitimately differ
            # by more than the tolerance
            if kind == "whitening":
                S = np.atleast_2d(np.cov(X.T))
            else:
                yy = np.array(case["y"])
                S = np.zeros((X.shape[1], X.shape[1]))
                for lab in set(case["y"]):
                    Z = X[yy == lab] - X[yy == lab].mean(axis=0)
                    S += Z.T @ Z
            with np.errstate(all="ignore"):
                cond = np.linalg.cond(S)
            if not np.isfinite(cond) or cond > 1e6:
                skip = "ill-conditioned"

    # ---------------- Dask side under the simulator ----------------
    carry = {}
    if case.get("failed_first") is not None:
        # a first attempt fails (the simulator makes a task raise: a lost worker, an error
        # inside a task); the caller catches the exception and trains again - with the same
        # estimator object where fit() re-initialises, and through the same Dask array object
        from ..sim import InjectedTaskFailure

        def first():
            with np.errstate(all="ignore"):
                carry["est"] = _make(case, K if iterative else None, None)
                carry["X"] = _dask_X(case, fresh())
                _fit_once(case, carry["est"], carry["X"])
        try:
            rec.run(dict(sched, fail_after=case["failed_first"], fail_mid=bool(case.get("failed_mid"))),
                    first, label="failed")
            rec.probe("first_attempt_finished_before_the_failure_point")
        except InjectedTaskFailure:
            rec.probe("first_attempt_failed_then_retried")
        except HarnessError:
            raise
        except Exception as _e:
            if is_harness_bug(_e):
                raise HarnessError(f"harness bug: {_e!r}")
            pass  # the attempt failed for its own reasons; the retry below decides
        if kind not in ("kmeans", "wccn", "whitening"):
            carry.pop("est", None)  # these continue from their state: retry with a fresh one

    def dask_fit(max_steps, t):
        def go():
            with np.errstate(all="ignore"):
                est = carry.pop("est", None) or _make(case, max_steps, t)
                Xd = carry.pop("X", None)
                m = _fit(case, est, Xd if Xd is not None else _dask_X(case, fresh()))
                return _params(kind, m)
        return go

    try:
        d_cap = rec.run(sched, dask_fit(K if iterative else None, None), label="cap")
        d_exc = None
    except Exception as e:
        if is_harness_bug(e):
            raise HarnessError(f"harness bug: {e!r}")
        if isinstance(e, HarnessError):
            raise
        d_exc, d_cap = e, None

    if mem_exc is not None or d_exc is not None:
        if mem_exc is not None and d_exc is not None:
            rec.probe("both_paths_raise")
            return Result.ok(**rec.fields())
        if mem_exc is not None:
            # in-memory refuses, Dask accepts: nothing to compare against
            return Result.skip("reference-raises", **rec.fields())
        return Result.violation(
            "dask-raises", {"exception": repr(d_exc)[:300], "chunks": case["chunks"],
                            "fchunks": case.get("fchunks"), "kind": kind}, **rec.fields())

    if skip in ("near-tie", "degenerate-variance", "nonfinite-reference", "ill-conditioned"):
        return Result.skip(skip, **rec.fields())

    rec.note([a for _, a, _ in d_cap])
    bad = _cmp(mem_cap, d_cap, s, tol)
    if bad is not None:
        clause = "criterion" if bad[0] == "criterion" else "model"
        return Result.violation(clause, {"param": bad[0], "rel_diff": bad[1], "kind": kind,
                                         "mode": sched["mode"], "chunks": case["chunks"],
                                         "mem": L(dict_get(mem_cap, bad[0])),
                                         "dask": L(dict_get(d_cap, bad[0]))}, **rec.fields())

    # thresholded stop (same number of iterations <=> same thresholded model)
    if iterative and thr is not None:
        if skip == "near-threshold":
            rec.probe("near_threshold_not_compared")
        else:
            d_thr = rec.run(sched, dask_fit(K, thr), label="thr")
            it_mem = _least_k(traj, mem_thr, s, 0.0, kind)
            rec.probe("stopped_early", it_mem is not None and it_mem < K)
            bad = _cmp(mem_thr, d_thr, s, tol)
            if bad is not None:
                it_d = _least_k(traj, d_thr, s, tol, kind)
                clause = "criterion" if bad[0] == "criterion" else "iterations"
                return Result.violation(
                    clause, {"param": bad[0], "rel_diff": bad[1], "kind": kind, "thr": thr,
                             "stop_iteration_mem": it_mem, "stop_iteration_dask": it_d,
                             "chunks": case["chunks"], "mode": sched["mode"]}, **rec.fields())

    # executor models must agree with each other
    if case.get("xmodes"):
        for mode in MODES:
            if mode == sched["mode"]:
                continue
            s2 = dict(sched, mode=mode)
            try:
                other = rec.run(s2, dask_fit(K if iterative else None, None), label="x_" + mode)
            except Exception as e:
                if is_harness_bug(e):
                    raise HarnessError(f"harness bug: {e!r}")
                if isinstance(e, HarnessError):
                    raise
                return Result.violation("dask-raises", {"exception": repr(e)[:300], "mode": mode,
                                                        "kind": kind}, **rec.fields())
            bad = _cmp(d_cap, other, s, tol_modes)
            if bad is not None:
                return Result.violation(
                    "executor-models-disagree",
                    {"param": bad[0], "rel_diff": bad[1], "kind": kind,
                     "modes": [sched["mode"], mode], "chunks": case["chunks"]}, **rec.fields())
        rec.probe("xmodes_compared")
    if init_violation is not None:
        init_violation.update(rec.fields())
        return init_violation
    return Result.ok(**rec.fields())


def dict_get(params, name):
    for n, a, _ in params:
        if n == name:
            return a
    return None


def _least_k(traj, target, s, tol, kind):
    lo = 0 if kind == "gmm_kminit" else 1
    for i, t in enumerate(traj):
        if _cmp(t, target, s, tol) is None:
            return i + lo
    return None


def _ties_are_exact(X, c, eps):
    """On integer grid data all sums are exact, so every path sees bit-identical centroids and
    each sample-to-centroid distance is a function of that pair alone.  A tie is then decided by
    rounding only if the candidates' distances are not *exactly* equal under one of the two
    formulae the code uses (scipy's cdist in memory, the expanded sum for Dask); where they are
    exactly equal under both, first-index wins on every path and the assignment is determined."""
    import scipy.spatial.distance as ssd
    dA = ssd.cdist(c, X, metric="sqeuclidean")
    dB = np.stack([np.sum((c[i] - X) ** 2, axis=-1) for i in range(c.shape[0])])
    for dd in (dA, dB):
        best = dd.min(axis=0)
        cand = dd <= best + np.maximum(eps, 1e-9 * best)
        if not (np.where(cand, dd, best[None, :]) == best[None, :]).all():
            return False
    candA = dA <= dA.min(axis=0) + np.maximum(eps, 1e-9 * dA.min(axis=0))
    candB = dB <= dB.min(axis=0) + np.maximum(eps, 1e-9 * dB.min(axis=0))
    return bool((candA == candB).all())


def _preconditions(case, X, s, traj, thr):
    """Discrete decisions that rounding may flip are preconditions, not assertions."""
    kind = case["kind"]
    K = case["K"]
    if kind == "kmeans":
        # near ties in the assignment, for the centroids entering every iteration
        cents = []
        try:
            cents.append(_params(kind, _fit(case, _make(case, 0, None), X.copy()))[0][1])
        except Exception as _e:
            if is_harness_bug(_e):
                raise HarnessError(f"harness bug: {_e!r}")
            return "near-tie"
        cents += [t[0][1] for t in traj[:-1]]
        for c in cents:
            if not np.isfinite(c).all():
                continue
            d2 = ((X[None, :, :] - c[:, None, :]) ** 2).sum(-1)
            if d2.shape[0] > 1:
                if case.get("grid") and _ties_are_exact(X, c, 1e-9 * s * s):
                    continue
                ds = np.sort(d2, axis=0)
                gap = ds[1] - ds[0]
                if (gap <= 1e-9 * np.maximum(ds[1], 1e-300)).any() or \
                        (gap <= 1e-9 * s * s).any():
                    return "near-tie"
        crit = [float(t[1][1]) for t in traj]
        if thr is not None and thr > 0:
            for k in range(1, len(crit)):
                if crit[k - 1] != 0 and np.isfinite(crit[k - 1]):
                    conv = abs((crit[k - 1] - crit[k]) / crit[k - 1])
                    if thr / 2 <= conv <= 2 * thr:
                        return "near-threshold"
        return None
    # GMM kinds
    cfg = case["cfg"]
    if kind == "gmm_kminit" or cfg["uv"]:
        for t in traj:
            v = t[1][1]
            if not np.isfinite(v).all():
                return "degenerate-variance"
            if cfg.get("vfloor") is None and (v < 1e-6 * s * s).any():
                return "degenerate-variance"
    if kind == "gmm_kminit":
        # k-means phase: near ties at the k-means level flip cluster membership
        from bob.learn.em import KMeansMachine
        for it in range(0, cfg["km_iter"] + 1):
            km = KMeansMachine(cfg["c"], init_method=A(cfg["means"]), max_iter=it,
                               convergence_threshold=None)
            with np.errstate(all="ignore"):
                c = np.asarray(km.fit(X.copy()).centroids_, dtype=float)
            if not np.isfinite(c).all():
                return "degenerate-variance"
            d2 = ((X[None, :, :] - c[:, None, :]) ** 2).sum(-1)
            if d2.shape[0] > 1:
                ds = np.sort(d2, axis=0)
                if ((ds[1] - ds[0]) <= 1e-9 * s * s).any():
                    return "near-tie"
    if thr is not None and thr > 0:
        # average log-likelihood entering iteration k is that of the model after k-1 steps
        lls = []
        lo = 0 if kind == "gmm_kminit" else 1
        for k in range(1, K + 1):
            if k == 1:
                if kind == "gmm_kminit":
                    prev = traj[0]
                else:
                    prev = [("means", A(cfg["means"]), "s"), ("variances", A(cfg["variances"]), "s2"),
                            ("weights", A(cfg["weights"]), "1")]
            else:
                prev = traj[k - 1 - lo]
            lls.append(_avg_ll(prev, X))
        for k in range(1, len(lls)):
            if lls[k - 1] != 0 and np.isfinite(lls[k - 1]) and np.isfinite(lls[k]):
                conv = abs((lls[k - 1] - lls[k]) / lls[k - 1])
                if thr / 2 <= conv <= 2 * thr:
                    return "near-threshold"
            else:
                return "near-threshold"
    return None


def _avg_ll(params, X):
    from bob.learn.em import GMMMachine

    means, variances, weights = params[0][1], params[1][1], params[2][1]
    g = GMMMachine(len(weights))
    g.means = means
    g.variance_thresholds = 0.0
    g.variances = variances
    g.weights = weights
    with np.errstate(all="ignore"):
        return float(np.mean(g.log_likelihood(X)))


# ---------------------------------------------------------------------------
# known-finding signature, shrinking
# ---------------------------------------------------------------------------
def signature(case, clause):
    kind = case["kind"]
    parts = [kind]
    if kind == "kmeans":
        init = case["cfg"]["init"]
        parts.append("init=" + (init if isinstance(init, str) else "array"))
    parts.append("row_blocks>1" if len(case["chunks"]) > 1 else "row_blocks=1")
    return "/".join(parts)


def shrink(case):
    # schedule side first
    sc = case["sched"]
    if case.get("xmodes"):
        yield dict(case, xmodes=False)
    if sc["mode"] != "shared" or sc["policy"] != "fifo":
        yield dict(case, sched=dict(sc, mode="shared", policy="fifo"))
    if sc["policy"] != "fifo":
        yield dict(case, sched=dict(sc, policy="fifo"))
    if sc["mode"] == "placed" and sc.get("workers", 1) > 1:
        yield dict(case, sched=dict(sc, workers=sc["workers"] - 1))
    # case side
    if case.get("fchunks"):
        yield {k: v for k, v in case.items() if k != "fchunks"}
    if case.get("nan_mask"):
        yield {k: v for k, v in case.items() if k not in ("nan_mask", "nan_chunks")}
    n = len(case["X"])
    ch = case["chunks"]
    if len(ch) > 2:
        yield dict(case, chunks=[ch[0], n - ch[0]])
        yield dict(case, chunks=[ch[0] + ch[1]] + ch[2:])
    if len(ch) > 1:
        yield dict(case, chunks=[n])
    if case.get("thr") is not None:
        yield dict(case, thr=None)
    if case.get("K", 0) > 1:
        yield dict(case, K=case["K"] - 1)
    cfg = case["cfg"]
    if case["kind"] in ("isv", "jfa"):
        if cfg["it"] > 1:
            yield dict(case, cfg=dict(cfg, it=cfg["it"] - 1))
        if case.get("yform") != "array":
            yield dict(case, yform="array")
    min_rows = 2
    if n > min_rows:
        # drop halves then single rows
        for rows in ([list(range(n // 2, n))] + [list(range(0, n // 2))] +
                     [[i] for i in range(n - 1, -1, -1)]):
            if n - len(rows) < min_rows:
                continue
            keep = [i for i in range(n) if i not in set(rows)]
            c2 = dict(case, X=[case["X"][i] for i in keep])
            c2.pop("nan_mask", None)
            c2.pop("nan_chunks", None)
            chunks = list(ch)
            for i in sorted(rows, reverse=True):
                chunks = drop_row_chunks(chunks, i)
            c2["chunks"] = chunks
            if "y" in case:
                y2 = [case["y"][i] for i in keep]
                if sorted(set(y2)) != list(range(len(set(y2)))):
                    continue
                c2["y"] = y2
            if case["kind"] == "kmeans" and cfg["k"] > len(keep):
                continue
            yield c2
    Xr = L(np.round(A(case["X"]), 2))
    if Xr != case["X"]:
        yield dict(case, X=Xr)
