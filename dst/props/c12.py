"""C12 — training from statistics is independent of bag partitioning and scheduling.

Simulated system: the real ISVMachine.fit / JFAMachine.fit / IVectorMachine.fit on a
dask.bag built from an explicit partition layout, executed by SimScheduler, compared
with the same fit on the equivalent in-memory list (DESIGN.md §5.3).
"""
import dask
import dask.bag as db
import numpy as np

from ..sim import gen_sched, MODES, HarnessError
from ..util import A, L, Result, sig6, random_composition, is_harness_bug
from .common import SimRec, gen_simplex, trim, tail
from .c04 import _cmp, dict_get

ID = "C12"
CHUNK = 6
BUDGET = {"quick": 70, "thorough": 900}
MAX_RUNS = {"quick": 3000, "thorough": 300000}
TOL = 1e-8
TOL_MODES = 1e-12

RULE = (
    "One run = one (trainer in {ISV, JFA, i-vector}, UBM, list of 2..40 labelled GMM statistics, "
    "bag partition layout (explicit partitions incl. empty, singleton, class-mixing ones; "
    "from_sequence with 1..N partitions), way the bag is built (plain, mapped, concatenation of "
    "mapped bags, generator partitions - lazy single-pass iterators, i-vector only), label "
    "container/dtype (list, tuple, int64/int32/uint8 array, bag), earlier life of the machine "
    "object (fresh, enrolled before, trained before), executor model in {shared, isolated, "
    "placed(W), threads(T)}, scheduling policy) drawn from blake2b(VERIF_SEED/i); the real "
    "fit(bag[, y]) runs under SimScheduler and is compared with fit(list[, y]) of the same tree "
    "and, in half of the runs, across executor models. Fixed cases: every partition count 1..N "
    "for N<=5 (thorough N<=7) x 3 trainers x 3 executor models; a fault-free sub-batch; N in "
    "{15,17,31,33,65} (thorough ..129) statistics with N, N-1 and N/2 partitions. Non-trivial = "
    "at least one real scheduling choice; distinct = distinct (case digest, event-log + result "
    "digest)."
)
ASSUMPTIONS = [
    "SimScheduler models Dask's shared-memory, multiprocessing and distributed executors; "
    "cloudpickle stands for the wire format",
    "fit(list) of the same tree is the reference; NumPy's global RNG is set to the same state "
    "before both fits (the i-vector T is drawn from it in the caller)",
    "every generated statistic has count >= 0.1 in every component and a first-order statistic "
    "away from the UBM mean, so a dropped or doubly counted partition moves every accumulator "
    "far beyond the 1e-8 tolerance",
]
COMPONENTS = {
    "real": ["bob.learn.em factor_analysis / ivector / gmm", "dask.bag, dask.delayed, "
             "dask.optimize, persist, to_delayed", "cloudpickle"],
    "stub": ["Dask scheduler / workers / transport (SimScheduler)"],
}
KINDS = ["isv", "jfa", "ivector"]


def setup():
    pass


def _gen_stats(rng, N, c, d, means, variances):
    rs = np.random.RandomState(rng.getrandbits(32))
    out = []
    sd = np.sqrt(variances)
    for _ in range(N):
        n = rs.uniform(0.1, 4.0, size=c)
        off = rs.randn(c, d) * sd * 1.5 + np.sign(rs.randn(c, d)) * 0.3 * sd
        m = means + off
        sum_px = n[:, None] * m
        sum_pxx = n[:, None] * (variances * rs.uniform(0.5, 1.5, size=(c, d)) + m * m)
        out.append({"n": L(sig6(n)), "sum_px": L(sig6(sum_px)), "sum_pxx": L(sig6(sum_pxx)),
                    "t": int(max(1, round(float(n.sum())))), "ll": float(sig6(-rs.uniform(1, 50)))})
    return out


def _with_empty(rng, stats):
    """Empty utterances (all frames removed by VAD) are valid statistics: all-zero counts."""
    if len(stats) > 3 and rng.random() < 0.15:
        for _ in range(rng.randint(1, 2)):
            i = rng.randrange(len(stats) - 1)  # not only in last position
            z = stats[i]
            stats[i] = {"n": [0.0] * len(z["n"]),
                        "sum_px": [[0.0] * len(r) for r in z["sum_px"]],
                        "sum_pxx": [[0.0] * len(r) for r in z["sum_pxx"]], "t": 0, "ll": 0.0}
    return stats


def _special_stats(rng, stats, y, means):
    """Coincidences a continuous generator never draws: a class whose utterances sit exactly at
    the UBM means (digital silence modelled by the UBM), a class of empty utterances only,
    utterances recorded twice."""
    r = rng.random()
    if r < 0.07:
        cls = rng.choice(sorted(set(y)))
        for i, lab in enumerate(y):
            if lab == cls:
                n = np.round(A(stats[i]["n"]) * 4.0 + 1.0)  # whole frame counts
                px = n[:, None] * means
                stats[i] = dict(stats[i], n=L(n), sum_px=L(px),
                                sum_pxx=L(n[:, None] * (means * means)), t=int(n.sum()))
    elif r < 0.11:
        cls = rng.choice(sorted(set(y)))
        for i, lab in enumerate(y):
            if lab == cls:
                z = stats[i]
                stats[i] = {"n": [0.0] * len(z["n"]),
                            "sum_px": [[0.0] * len(q) for q in z["sum_px"]],
                            "sum_pxx": [[0.0] * len(q) for q in z["sum_pxx"]], "t": 0, "ll": 0.0}
    elif r < 0.17 and len(stats) > 1:
        for _ in range(rng.randint(1, 3)):
            i, j = rng.sample(range(len(stats)), 2)
            stats[i] = dict(stats[j])
    elif r < 0.24 and len(means) > 1:
        # a UBM component that no frame of the training set was assigned to
        dead = rng.randrange(len(means))
        for i, st in enumerate(stats):
            n, px, pxx = A(st["n"]), A(st["sum_px"]), A(st["sum_pxx"])
            n[dead], px[dead], pxx[dead] = 0.0, 0.0, 0.0
            stats[i] = dict(st, n=L(n), sum_px=L(px), sum_pxx=L(pxx))
    return stats


def _gen_layout(rng, N):
    r = rng.random()
    if r < 0.35:
        return {"type": "from_sequence", "npartitions": rng.randint(1, N)}
    # explicit composition, possibly with empty partitions inserted
    parts = random_composition(rng, N, rng.randint(1, N))
    if r < 0.65:
        for _ in range(rng.randint(1, 2)):
            parts.insert(rng.randint(0, len(parts)), 0)
    if r > 0.9:
        parts = [1] * N
    return {"type": "explicit", "parts": parts}


def gen_case(rng, tier, kind=None, N=None, nc=None):
    kind = kind or rng.choice(KINDS)
    c = tail(rng, 1, 3, [9, 17, 33], 0.04)
    d = tail(rng, 1, 3, [9, 17], 0.04)
    rs = np.random.RandomState(rng.getrandbits(32))
    scale = 10.0 ** rng.uniform(-1, 1)
    means = sig6(rs.randn(c, d) * 2 * scale)
    variances = sig6(rs.uniform(0.5, 2.0, size=(c, d)) * scale * scale)
    weights = gen_simplex(rng, c)
    nc = nc or (rng.randint(2, 4) if rng.random() < 0.9 else rng.randint(5, 12))
    N = N or (rng.randint(nc, max(nc, 14 if tier == "thorough" else 10)) if rng.random() < 0.93
              else rng.randint(max(15, nc), max(40, nc)))
    nc = min(nc, N)
    y = list(range(nc)) + [rng.randrange(nc) for _ in range(N - nc)]
    if rng.random() < 0.8:
        rng.shuffle(y)
    case = {
        "kind": kind,
        "ubm": {"c": c, "means": L(means), "variances": L(variances), "weights": L(weights)},
        "stats": _special_stats(rng, _with_empty(rng, _gen_stats(rng, N, c, d, means, variances)),
                                y, means),
        "y": y,
        "yform": rng.choice(["list", "array", "bag", "int32", "uint8", "tuple",
                             "series_shuffled_index"]),
        "layout": _gen_layout(rng, N),
        # how the bag is built: partitions may reach the tasks as lists or as lazy single-pass
        # iterators (concatenation of mapped bags, generator partitions). ISV/JFA take len() of
        # every partition and refuse iterators, so only the i-vector trainer is given them.
        "stats_layout": rng.choice([None, None, None, "fortran", "stacked", "strided"]),
        "failed_first": rng.choice([None] * 9 + [0, 1, 2, 3, 5, 8, 13, 21, 34]),
        "failed_first_same_machine": rng.random() < 0.6,
        "failed_mid": rng.random() < 0.5,
        "bagform": (rng.choice(["plain", "plain", "concat_mapped", "generator", "mapped",
                                "from_delayed", "repartitioned", "filtered"])
                    if kind == "ivector" else
                    rng.choice(["plain", "plain", "plain", "from_delayed", "repartitioned"])),
        "cfg": {"rU": tail(rng, 1, 3, [5, 9], 0.04), "rV": tail(rng, 1, 2, [5, 9], 0.04),
                "it": tail(rng, 1, 3, [6], 0.03),
                "rf": rng.choice([4.0, 1.0, 10.0]), "rs": rng.randint(0, 1000),
                "dim_t": tail(rng, 1, 3, [5, 9, 17], 0.05), "update_sigma": rng.random() < 0.6,
                # (floors from negligible to above some / all of the UBM's variances)
                "floor": rng.choice([1e-10, 1e-3 * scale * scale, 1e-3 * scale * scale,
                                     0.8 * scale * scale, 1.2 * scale * scale, 3.0 * scale * scale]),
                "conv_thr": rng.choice([None, None, 1e-9, 1e-3, 0.5])},
        "np_seed": rng.randint(0, 2 ** 31 - 1),
        # a long-lived machine object: used (enrolment) or trained before this training
        "pre": rng.choice([None, None, None, "enroll", "fit", "fit_then_update_ubm",
                           "fit_then_shallow_copy", "shallow_copy"]),
        "sched": gen_sched(rng),
        "xmodes": rng.random() < 0.5,
    }
    if case["bagform"] == "generator":
        # a generator cannot cross a serialisation boundary (on a real serialising executor
        # the partition task and its consumer would have to be fused): shared memory only
        case["sched"]["mode"] = "shared"
        case["xmodes"] = False
    return case


def fixed_cases(tier):
    import random

    out = []
    nmax = 7 if tier == "thorough" else 5
    rng = random.Random(1212)
    for kind in KINDS:
        for N in range(2, nmax + 1):
            base = gen_case(random.Random(f"fixed12/{kind}/{N}"), "quick", kind=kind, N=N)
            base["cfg"]["it"] = min(base["cfg"]["it"], 2)
            for k in range(1, N + 1):
                for mode in MODES:
                    cs = dict(base)
                    cs["layout"] = {"type": "from_sequence", "npartitions": k}
                    cs["xmodes"] = False
                    cs["sched"] = {"mode": mode, "policy": "random", "workers": 3,
                                   "stall_p": 0.5, "seed": rng.getrandbits(32)}
                    out.append(cs)
    # fault-free sub-batch: a single partition, shared memory, fifo order
    for kind in KINDS:
        for j in range(3):
            r0 = random.Random(f"fixed12degenerate/{kind}/{j}")
            cs = gen_case(r0, "quick", kind=kind)
            cs["layout"] = {"type": "from_sequence", "npartitions": 1}
            cs["xmodes"] = False
            cs["fault_free"] = True
            cs["sched"] = {"mode": "shared", "policy": "fifo", "workers": 1, "stall_p": 0.0, "seed": 0}
            out.append(cs)
    # many classes (per-class task lists that are built or computed in groups)
    for kind in ("isv", "jfa"):
        for nc in ([65, 70] if tier == "quick" else [63, 64, 65, 70, 129, 140, 300]):
            r2 = random.Random(f"fixed12classes/{kind}/{nc}")
            base = gen_case(r2, "quick", kind=kind, N=nc + 6, nc=nc)
            base["cfg"]["it"] = 1
            base["pre"] = None
            base["xmodes"] = False
            base["layout"] = {"type": "from_sequence", "npartitions": r2.choice([1, 7, nc])}
            base["sched"] = {"mode": r2.choice(list(MODES)), "policy": "random", "workers": 3,
                             "stall_p": 0.5, "seed": r2.getrandbits(32)}
            out.append(base)
    # many partitions that each hold many statistics (two-digit partition AND position indices)
    for kind in KINDS:
        for N, k in ((150, 12), (170, 13)) if tier == "quick" else ((150, 12), (170, 13), (400, 20), (1200, 101)):
            if kind != "ivector" and N > 400:
                continue
            r2 = random.Random(f"fixed12grid/{kind}/{N}/{k}")
            base = gen_case(r2, "quick", kind=kind, N=N, nc=r2.randint(2, 4))
            base["cfg"]["it"] = 1
            base["cfg"]["rU"], base["cfg"]["rV"] = 1, 1
            base["pre"] = None
            base["xmodes"] = False
            base["bagform"] = "plain"
            base["layout"] = {"type": "from_sequence", "npartitions": k}
            base["sched"] = {"mode": r2.choice(list(MODES)), "policy": "random", "workers": 3,
                             "stall_p": 0.5, "seed": r2.getrandbits(32)}
            out.append(base)
    # many statistics / partitions around powers of two
    counts = [15, 17, 31, 33, 65] if tier == "quick" else \
        [15, 16, 17, 31, 32, 33, 63, 64, 65, 100, 129, 257, 513, 1025]
    for kind in KINDS:
        for N in counts:
            if kind != "ivector" and N > 70:
                continue
            r2 = random.Random(f"fixed12many/{kind}/{N}")
            base = gen_case(r2, "quick", kind=kind, N=N)
            base["cfg"]["it"] = 1 if kind != "ivector" else 2
            base["pre"] = None
            base["xmodes"] = False
            for k in sorted({N, N - 1, (N + 1) // 2}):
                cs = dict(base)
                cs["layout"] = {"type": "from_sequence", "npartitions": k}
                cs["sched"] = {"mode": r2.choice(list(MODES)), "policy": "random", "workers": 3,
                               "stall_p": 0.5, "seed": r2.getrandbits(32)}
                out.append(cs)
    return out


def exhaustive_note(tier):
    nmax = 7 if tier == "thorough" else 5
    return (f"every partition count 1..N for N=2..{nmax} x {{shared,isolated,placed}} x "
            "{isv,jfa,ivector}; exhaustive in that dimension only")


def sample_view(case):
    return trim(case, maxrows=4)


# ---------------------------------------------------------------------------
def _mk_ubm(u):
    from bob.learn.em import GMMMachine

    g = GMMMachine(u["c"])
    g.means = A(u["means"])
    g.variances = A(u["variances"])
    g.weights = A(u["weights"])
    return g


def _mk_stats(case):
    from bob.learn.em import GMMStats

    c = case["ubm"]["c"]
    d = len(case["ubm"]["means"][0])
    out = []
    lay = case.get("stats_layout")
    N = len(case["stats"])
    if lay == "stacked":
        # all utterances' sums live in one (features, gaussians, utterances) buffer, each
        # statistic holds a transposed view of its slice
        buf_x = np.zeros((d, c, N))
        buf_xx = np.zeros((d, c, N))
        buf_n = np.zeros((c, N))
    for j, sd in enumerate(case["stats"]):
        st = GMMStats(c, d)
        st.n = A(sd["n"])
        st.sum_px = A(sd["sum_px"])
        st.sum_pxx = A(sd["sum_pxx"])
        if lay == "fortran":
            st.sum_px = np.asfortranarray(st.sum_px)
            st.sum_pxx = np.asfortranarray(st.sum_pxx)
        elif lay == "stacked":
            buf_x[:, :, j] = st.sum_px.T
            buf_xx[:, :, j] = st.sum_pxx.T
            buf_n[:, j] = st.n
            st.sum_px, st.sum_pxx, st.n = buf_x[:, :, j].T, buf_xx[:, :, j].T, buf_n[:, j]
        elif lay == "strided":
            big = np.zeros((2 * c, 2 * d))
            big[::2, ::2] = st.sum_px
            st.sum_px = big[::2, ::2]
        st.t = sd["t"]
        st.log_likelihood = sd["ll"]
        out.append(st)
    return out


_CTX = {}


def _make(case):
    from bob.learn.em import ISVMachine, JFAMachine, IVectorMachine

    cfg = case["cfg"]
    ubm = _mk_ubm(case["ubm"])
    _CTX["ubm"] = ubm  # the caller's own UBM object, for the "fit_then_update_ubm" pre-operation
    if case["kind"] == "isv":
        return ISVMachine(cfg["rU"], em_iterations=cfg["it"], relevance_factor=cfg["rf"],
                          random_state=cfg["rs"], ubm=ubm)
    if case["kind"] == "jfa":
        return JFAMachine(cfg["rU"], cfg["rV"], em_iterations=cfg["it"],
                          relevance_factor=cfg["rf"], random_state=cfg["rs"], ubm=ubm)
    return IVectorMachine(ubm, dim_t=cfg["dim_t"], max_iterations=cfg["it"],
                          update_sigma=cfg["update_sigma"], variance_floor=cfg["floor"],
                          convergence_threshold=cfg.get("conv_thr"))


def _params(kind, m):
    if kind == "isv":
        return [("U", np.asarray(m.U, float), "rel"), ("D", np.asarray(m.D, float), "rel")]
    if kind == "jfa":
        return [("U", np.asarray(m.U, float), "rel"), ("V", np.asarray(m.V, float), "rel"),
                ("D", np.asarray(m.D, float), "rel")]
    return [("T", np.asarray(m.T, float), "rel"), ("sigma", np.asarray(m.sigma, float), "rel")]


def _ident(x):
    return x


def _true(x):
    return True


def _gen_part(part):
    for x in part:
        yield x


def _bag(case, stats):
    b = _bag_plain(case, stats)
    form = case.get("bagform", "plain")
    if form == "mapped":
        return b.map(_ident)
    if form == "filtered":
        return b.filter(_true)
    if form == "repartitioned":
        return b.repartition(npartitions=max(1, b.npartitions - 1)) if b.npartitions > 1 else b
    if form == "from_delayed":
        lay = case["layout"]
        if lay["type"] == "explicit":
            sizes = [sz for sz in lay["parts"]]
        else:
            k = lay["npartitions"]
            base_, extra = divmod(len(stats), k)
            sizes = [base_ + (1 if i < extra else 0) for i in range(k)]
            sizes = [sz for sz in sizes if sz > 0] or [0]
        parts, i = [], 0
        for sz in sizes:
            parts.append(dask.delayed(list)(list(stats[i:i + sz])))
            i += sz
        if i < len(stats):
            parts.append(dask.delayed(list)(list(stats[i:])))
        return db.from_delayed(parts)
    if form == "generator":
        return b.map_partitions(_gen_part)
    if form == "concat_mapped":
        k = max(1, len(stats) // 2)
        lay = case["layout"]
        np1 = max(1, (lay.get("npartitions") or len(lay.get("parts", [1]))) // 2)
        b1 = db.from_sequence(stats[:k], npartitions=np1).map(_ident)
        rest = stats[k:]
        if not rest:
            return b1
        b2 = db.from_sequence(rest, npartitions=max(1, np1)).map(_ident)
        return db.concat([b1, b2])
    return b


def _bag_plain(case, stats):
    lay = case["layout"]
    if lay["type"] == "from_sequence":
        return db.from_sequence(stats, npartitions=lay["npartitions"])
    parts, i = {}, 0
    name = "verif-stats-bag"
    for j, sz in enumerate(lay["parts"]):
        parts[(name, j)] = list(stats[i:i + sz])
        i += sz
    return db.Bag(parts, name, len(lay["parts"]))


def _labels(case, for_bag):
    y = case["y"]
    f = case["yform"]
    if f == "tuple":
        return tuple(y) if for_bag else np.array(y)
    if f in ("int32", "uint8"):
        return np.array(y, dtype=getattr(np, f))
    if f == "series_shuffled_index":
        # the label column of a shuffled DataFrame: positions and index labels disagree
        import pandas
        idx = list(range(len(y)))
        idx = idx[1:] + idx[:1] if len(idx) > 1 else idx
        idx = idx[::-1]
        return pandas.Series(list(y), index=idx) if for_bag else np.array(y)
    if f == "list" and for_bag:
        return list(y)
    if f == "bag" and for_bag:
        return db.from_sequence(list(y), npartitions=max(1, len(y) // 3))
    return np.array(y)


def _pre(case, m, stats, bag_mode):
    """Earlier life of the machine object: enrolment with its initial U/V/D, or a first
    training (through the same kind of container) on the statistics in reverse order."""
    pre = case.get("pre")
    if pre == "enroll" and case["kind"] != "ivector":
        m.enroll(stats[:2])
    elif pre == "shallow_copy":
        return _derived(case, m)
    elif pre in ("fit", "fit_then_update_ubm", "fit_then_shallow_copy"):
        rev = stats[::-1]
        if case["kind"] == "ivector":
            m.fit(db.from_sequence(rev, npartitions=2) if bag_mode else rev)
        else:
            yr = np.array(case["y"][::-1])
            m.fit(db.from_sequence(rev, npartitions=2) if bag_mode else rev, yr)
        if pre == "fit_then_update_ubm":
            # the caller re-estimates its UBM in place (public setters on the object it handed
            # to the machine) before training the machine again
            ubm = _CTX["ubm"]
            ubm.means = np.array(ubm.means) * 1.05 + 0.01
            ubm.variances = np.array(ubm.variances) * 1.2
        if pre == "fit_then_shallow_copy":
            return _derived(case, m)
    return m


def _derived(case, t):
    """The machine that is trained is a copy.copy of a template machine that lives on and whose
    matrices are re-assigned afterwards."""
    import copy as _cp
    m = _cp.copy(t)
    for nm in ("U", "V", "D", "T", "sigma"):
        if isinstance(getattr(t, nm, None), np.ndarray):
            setattr(t, nm, np.array(getattr(t, nm), float) * 2.0 + 0.5)
    _CTX.setdefault("alive", []).append(t)
    del _CTX["alive"][:-4]
    return m


def _fit_list(case):
    np.random.seed(case["np_seed"] % (2 ** 32))
    m = _make(case)
    stats = _mk_stats(case)
    m = _pre(case, m, stats, False)
    if case["kind"] == "ivector":
        m.fit(stats)
    else:
        m.fit(stats, _labels(case, False))
    return _params(case["kind"], m)


def _fit_bag(case, carry=None):
    carry = carry if carry is not None else {}
    m = carry.pop("m", None)
    stats = carry.pop("stats", None) or _mk_stats(case)
    if m is None:
        m = _make(case)
        m = _pre(case, m, stats, True)
    bag = carry.pop("bag", None)
    if bag is None:
        bag = _bag(case, stats)
    if "keep" in carry:
        carry["stats"] = stats
        if carry["keep"] == "machine_too":
            carry["m"] = m  # fit() re-initialises: the same machine object is trained again
        if case.get("bagform", "plain") not in ("generator", "concat_mapped"):
            carry["bag"] = bag  # (single-pass partitions cannot be read a second time)
        del carry["keep"]
    if case["kind"] == "ivector":
        m.fit(bag)
    else:
        m.fit(bag, _labels(case, True))
    return _params(case["kind"], m)


def run_case(case, replay=None):
    kind = case["kind"]
    rec = SimRec(replay)
    lay = case["layout"]
    if lay["type"] == "explicit":
        parts = lay["parts"]
        rec.probe("empty_partition", 0 in parts)
        rec.probe("singleton_partition", 1 in parts)
        # a partition that mixes classes
        i, mixed = 0, False
        for sz in parts:
            if len(set(case["y"][i:i + sz])) > 1:
                mixed = True
            i += sz
        rec.probe("partition_mixes_classes", mixed)
        npart = len(parts)
    else:
        npart = lay["npartitions"]
    rec.probe("odd_partition_count", npart % 2 == 1 and npart > 1)
    rec.probe("even_partition_count", npart % 2 == 0)
    rec.probe("unsorted_labels", case["y"] != sorted(case["y"]))
    rec.probe("zero_occupancy_statistics", any(not any(st["n"]) for st in case["stats"]))
    rec.probe("lazy_iterator_partitions", case.get("bagform") in ("concat_mapped", "generator"))
    rec.probe("statistics_with_non_contiguous_arrays", case.get("stats_layout") is not None)
    rec.probe("mode_" + case["sched"]["mode"])
    rec.probe("fault_free_configuration", bool(case.get("fault_free")))
    rec.probe("machine_used_before_" + str(case.get("pre")), case.get("pre") is not None)

    mem_exc = None
    try:
        with dask.config.set(scheduler="synchronous"), np.errstate(all="ignore"):
            mem = _fit_list(case)
    except Exception as e:
        if is_harness_bug(e):
            raise HarnessError(f"harness bug: {e!r}")
        mem_exc = e
    sched = case["sched"]
    xmodes = case.get("xmodes")
    if case.get("bagform") == "generator" and sched["mode"] in ("isolated", "placed"):
        # a generator cannot cross a serialisation boundary (see gen_case): whatever built the
        # case, generator partitions are only ever run on the shared-memory executors
        sched = dict(sched, mode="shared")
        xmodes = False

    carry = {}
    if case.get("failed_first") is not None:
        # a first training attempt fails in a task; the caller catches the exception and
        # trains a new machine from the same statistics objects (and the same bag)
        from ..sim import InjectedTaskFailure
        # (the i-vector trainer re-draws its start from the process-wide generator at every
        # fit: it is retried with a new machine)
        carry["keep"] = "machine_too" if case.get("failed_first_same_machine") \
            and kind in ("isv", "jfa") else True

        def first():
            with np.errstate(all="ignore"):
                _fit_bag(case, carry)
        try:
            rec.run(dict(sched, fail_after=case["failed_first"],
                         fail_mid=bool(case.get("failed_mid"))), first, np_seed=case["np_seed"],
                    label="failed")
            rec.probe("first_attempt_finished_before_the_failure_point")
        except InjectedTaskFailure:
            rec.probe("first_attempt_failed_then_retried")
        except HarnessError:
            raise
        except Exception as _e:
            if is_harness_bug(_e):
                raise HarnessError(f"harness bug: {_e!r}")
            pass
        carry.pop("keep", None)
        if "m" in carry:
            # ISV / JFA continue from the state the machine is in: the reference for the
            # retry is the in-memory training of a copy of the machine as the failed attempt
            # left it, on copies of the same statistics
            import copy as _copy
            try:
                with dask.config.set(scheduler="synchronous"), np.errstate(all="ignore"):
                    ref_m = _copy.deepcopy(carry["m"])
                    ref_m.fit(_copy.deepcopy(carry["stats"]), _labels(case, False))
                    mem, mem_exc = _params(kind, ref_m), None
            except Exception as e:
                if is_harness_bug(e):
                    raise HarnessError(f"harness bug: {e!r}")
                mem_exc = e
            rec.probe("same_machine_retrained_after_failed_attempt")
            snap = (_copy.deepcopy(carry["m"]), _copy.deepcopy(carry["stats"]))
        else:
            snap = None
    else:
        snap = None

    def go():
        with np.errstate(all="ignore"):
            if snap is not None and "m" not in carry:
                # (further executor models start from the same post-failure state)
                import copy as _copy2
                return _fit_bag(case, {"m": _copy2.deepcopy(snap[0]),
                                       "stats": _copy2.deepcopy(snap[1])})
            return _fit_bag(case, carry)

    try:
        d = rec.run(sched, go, np_seed=case["np_seed"], label="bag")
        d_exc = None
    except HarnessError:
        raise
    except Exception as e:
        if is_harness_bug(e):
            raise HarnessError(f"harness bug: {e!r}")
        d, d_exc = None, e
    if mem_exc is not None or d_exc is not None:
        if mem_exc is not None and d_exc is not None:
            rec.probe("both_paths_raise")
            return Result.ok(**rec.fields())
        if mem_exc is not None:
            return Result.skip("reference-raises", **rec.fields())
        return Result.violation("dask-raises", {"exception": repr(d_exc)[:300], "kind": kind,
                                                "layout": lay, "yform": case["yform"]},
                                **rec.fields())
    rec.note([a for _, a, _ in d])
    if not all(np.isfinite(a).all() for _, a, _ in mem):
        return Result.skip("nonfinite-reference", **rec.fields())
    bad = _cmp(mem, d, 1.0, TOL)
    if bad is not None:
        return Result.violation("model", {"param": bad[0], "rel_diff": bad[1], "kind": kind,
                                          "layout": lay, "mode": sched["mode"],
                                          "mem": L(dict_get(mem, bad[0])),
                                          "dask": L(dict_get(d, bad[0]))}, **rec.fields())
    if xmodes:
        for mode in MODES:
            if mode == sched["mode"]:
                continue
            try:
                o = rec.run(dict(sched, mode=mode), go, np_seed=case["np_seed"], label="x_" + mode)
            except HarnessError:
                raise
            except Exception as e:
                if is_harness_bug(e):
                    raise HarnessError(f"harness bug: {e!r}")
                return Result.violation("dask-raises", {"exception": repr(e)[:300], "mode": mode,
                                                        "kind": kind}, **rec.fields())
            bad = _cmp(d, o, 1.0, TOL_MODES)
            if bad is not None:
                return Result.violation("executor-models-disagree",
                                        {"param": bad[0], "rel_diff": bad[1], "kind": kind,
                                         "modes": [sched["mode"], mode], "layout": lay},
                                        **rec.fields())
        rec.probe("xmodes_compared")
    return Result.ok(**rec.fields())


def signature(case, clause):
    return f"{case['kind']}/{case['layout']['type']}"


def shrink(case):
    sc = case["sched"]
    if case.get("xmodes"):
        yield dict(case, xmodes=False)
    if sc["mode"] != "shared" or sc["policy"] != "fifo":
        yield dict(case, sched=dict(sc, mode="shared", policy="fifo"))
    if sc["policy"] != "fifo":
        yield dict(case, sched=dict(sc, policy="fifo"))
    if sc["mode"] == "placed" and sc.get("workers", 1) > 1:
        yield dict(case, sched=dict(sc, workers=sc["workers"] - 1))
    if case["yform"] != "array":
        yield dict(case, yform="array")
    if case.get("pre"):
        yield dict(case, pre=None)
    if case.get("bagform", "plain") != "plain":
        yield dict(case, bagform="plain")
    cfg = case["cfg"]
    if cfg["it"] > 1:
        yield dict(case, cfg=dict(cfg, it=cfg["it"] - 1))
    N = len(case["stats"])
    lay = case["layout"]
    if lay["type"] == "explicit":
        parts = lay["parts"]
        if 0 in parts:
            p2 = list(parts)
            p2.remove(0)
            yield dict(case, layout={"type": "explicit", "parts": p2})
        if len(parts) > 1:
            yield dict(case, layout={"type": "explicit", "parts": [parts[0] + parts[1]] + parts[2:]})
    else:
        if lay["npartitions"] > 1:
            yield dict(case, layout={"type": "from_sequence", "npartitions": lay["npartitions"] - 1})
    # drop one statistic
    for i in range(N - 1, -1, -1):
        y2 = case["y"][:i] + case["y"][i + 1:]
        if len(y2) < 2 or sorted(set(y2)) != list(range(len(set(y2)))):
            continue
        c2 = dict(case, stats=case["stats"][:i] + case["stats"][i + 1:], y=y2)
        if lay["type"] == "explicit":
            parts, start, p2 = lay["parts"], 0, []
            for sz in parts:
                p2.append(sz - 1 if start <= i < start + sz else sz)
                start += sz
            c2["layout"] = {"type": "explicit", "parts": p2}
        else:
            c2["layout"] = {"type": "from_sequence",
                            "npartitions": min(lay["npartitions"], N - 1)}
        yield c2
