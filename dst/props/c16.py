"""C16 — a trained model is a function of the labelled sample multiset and the seed only.

Simulated system: one process, one history.  A seeded sequence of operations
{perturb the global NumPy RNG, construct an ISV/JFA machine (re-seeds the global RNG),
fit an unrelated estimator (incl. the i-vector trainer, which consumes the global RNG),
fit(spec)} where spec = (estimator, configuration with an integer random_state, data set,
presentation in {identity, sample permutation, class relabelling, both}, backend in {NumPy,
Dask array / bag with a chunking and an executor model}).  The oracle runs over the recorded
history (DESIGN.md §5.4).
"""
import dask
import dask.array as da
import dask.bag as db
import numpy as np

from ..sim import gen_sched, HarnessError
from ..util import A, L, Result, sig6, rel_diff, random_composition, is_harness_bug
from .common import SimRec, gen_data, gen_simplex, trim
from .c04 import _cmp, dict_get

ID = "C16"
CHUNK = 4
BUDGET = {"quick": 70, "thorough": 900}
MAX_RUNS = {"quick": 2500, "thorough": 200000}
TOL_SAME = 1e-12
TOL_PRES = 1e-8

RULE = (
    "One run = one seeded history of 5..14 operations: perturb_rng (reseed / draw), construct "
    "(ISV/JFA construction re-seeds the global RNG), unrelated_fit (k-means with another seed, "
    "i-vector trainer which consumes the global RNG, ISV), and 3..7 fits of ONE target spec "
    "(estimator in {k-means, GMM, k-means-initialised GMM, ISV, JFA, ISV/JFA from arrays, WCCN}, "
    "configuration with an integer random_state given as a Python int or a NumPy integer scalar, "
    "data set, label dtype) under varying presentation (identity / sample permutation / class "
    "relabelling / both), backend (NumPy, Dask array or bag with a fixed chunking) and executor "
    "model / task order. Oracle over the history: same presentation and backend -> equal to "
    "1e-12 whatever preceded and whatever the schedule; different presentations (same backend "
    "and chunk structure) -> equal to 1e-8. Non-trivial = the history has >= 2 fits of the target "
    "with a perturbation or another fit in between; distinct = distinct case digest + event-log "
    "digest."
)
ASSUMPTIONS = [
    "presentation invariance of k-means / GMM is evaluated with explicit initial centroids / "
    "means (the model is then a function of the multiset) with no convergence threshold; the "
    "seeded initialisers are evaluated too and reported (known finding: index-based sampling)",
    "discrete decisions rounding may flip (k-means near-ties) are preconditions (skips)",
    "tolerances: 1e-12 relative for identical presentations, 1e-8 for permuted / relabelled ones",
]
COMPONENTS = {
    "real": ["bob.learn.em k-means, GMM, ISV, JFA, WCCN, i-vector", "dask graph construction",
             "dask_ml k_init", "NumPy global RNG (owned by the history)"],
    "stub": ["Dask scheduler (SimScheduler)"],
}
ESTS = ["kmeans", "gmm", "gmm_kminit", "isv", "jfa", "isv_array", "jfa_array", "wccn"]
EST_W = [20, 15, 8, 15, 12, 8, 7, 15]


def setup():
    pass


def _perm(rng, n):
    p = list(range(n))
    rng.shuffle(p)
    return p


def gen_case(rng, tier, est=None, seeded=None, long_lived=False):
    est = est or rng.choices(ESTS, EST_W)[0]
    rs = np.random.RandomState(rng.getrandbits(32))
    case = {"kind": est}
    d = rng.randint(1, 3)
    if est in ("kmeans", "gmm", "gmm_kminit"):
        n = rng.randint(6, 30)
        X = gen_data(rng, n, d)
        k = rng.randint(1, 3)
        idx = rs.choice(n, size=k, replace=False)
        init = sig6(X[idx] + rs.randn(k, d) * 0.05 * (X.std(axis=0) + 1e-9))
        if k > 1 and est == "kmeans" and rng.random() < 0.1:
            init[-1] = init[-1] + 1e3 * (np.abs(X).max() + 1.0)  # a cluster that stays empty
        if est == "kmeans" and seeded is None and rng.random() < 0.15:
            # quantised samples on a small dyadic grid: exact ties are common, all sums exact
            step = rng.choice([1.0, 1.0, 0.5, 2.0])
            X = rs.randint(-3, 4, size=(n, d)).astype(float) * step
            init = rs.randint(-3, 4, size=(k, d)).astype(float) * step
            case["grid"] = step
            seeded = False
        smax = float(np.abs(X).max()) or 1.0
        seeded = (rng.random() < (0.4 if est == "gmm" else 0.15)) if seeded is None else seeded
        if est == "gmm_kminit":
            seeded = True if seeded is None else seeded
        case.update(X=L(X), cfg={
            "k": k, "init": L(init), "seeded": bool(seeded),
            "init_method": rng.choice(["random", "k-means||"]),
            "rs": rng.randint(0, 1000), "steps": rng.randint(1, 4),
            "variances": L(sig6((X.std(axis=0) + 1e-3 * smax) ** 2 * rs.uniform(0.5, 2, size=(k, d)))),
            "weights": L(gen_simplex(rng, k)),
            "uv": rng.random() < 0.5, "uw": rng.random() < 0.5,
            # an occupancy threshold that some components do not reach
            "mvut": rng.choice([None, None, None, 0.5, 1.5, 3.0]),
            "vfloor": float(sig6(1e-3 * smax * smax))})
        n_items, labelled = n, False
    elif est in ("isv", "jfa"):
        c = rng.randint(1, 2)
        scale = 10.0 ** rng.uniform(-1, 1)
        means = sig6(rs.randn(c, d) * 2 * scale)
        variances = sig6(rs.uniform(0.5, 2.0, size=(c, d)) * scale * scale)
        nc = rng.randint(2, 4)
        N = rng.randint(nc + 1, 10)
        y = list(range(nc)) + [rng.randrange(nc) for _ in range(N - nc)]
        rng.shuffle(y)
        from .c12 import _gen_stats
        case.update(ubm={"c": c, "means": L(means), "variances": L(variances),
                         "weights": L(gen_simplex(rng, c))},
                    stats=_gen_stats(rng, N, c, d, means, variances), y=y,
                    cfg={"rU": rng.randint(1, 2), "rV": rng.randint(1, 2), "it": rng.randint(1, 2),
                         "rs": rng.randint(0, 1000), "rf": 4.0})
        n_items, labelled = N, True
    else:  # isv_array / jfa_array / wccn
        nc = rng.randint(2, 3)
        n = rng.randint(max(nc + 2, d + nc + 3), 16)
        if est == "wccn" and rng.random() < 0.08:
            # many classes (hundreds of identities is the normal use of WCCN)
            nc = rng.choice([17, 33, 65, 128, 130, 200])
            n = nc * 2 + rng.randint(d + 3, d + 20)
        mix = rs.randn(d, d) + 2 * np.eye(d)
        X = sig6(rs.randn(n, d) @ mix * 10.0 ** rng.uniform(-1, 1) + rs.uniform(-2, 2, size=d))
        y = [i % nc for i in range(n)]
        rng.shuffle(y)
        c = rng.randint(1, 2)
        idx = rs.choice(n, size=c, replace=False)
        case.update(X=L(X), y=y,
                    ubm={"c": c, "means": L(sig6(X[idx])),
                         "variances": L(sig6(np.tile(X.var(axis=0) + 1e-6, (c, 1)))),
                         "weights": L(gen_simplex(rng, c))},
                    cfg={"rU": rng.randint(1, 2), "rV": rng.randint(1, 2), "it": rng.randint(1, 2),
                         "rs": rng.randint(0, 1000), "rf": 4.0})
        n_items, labelled = n, True
    nc = len(set(case.get("y", [0])))
    # backends available to this estimator
    if est in ("isv", "jfa"):
        backends = ["np", "bag"]
    elif est == "wccn":
        backends = ["np", "da"]
    else:
        backends = ["np", "da"]
    chunks = random_composition(rng, n_items, rng.randint(1, min(4, n_items)))
    if est == "wccn" and nc > 16:
        chunks = random_composition(rng, n_items, rng.randint(1, 2))
    # the history
    ops = []
    n_fits = rng.randint(3, 7)
    if long_lived or rng.random() < 0.05:
        n_fits = rng.randint(12, 70)  # a long-lived process: dozens of trainings
    fits_done = 0
    while fits_done < n_fits:
        r = rng.random()
        if r < 0.25:
            ops.append({"op": "perturb_rng", "how": rng.choice(["seed", "draw"]),
                        "v": rng.randint(0, 10 ** 6)})
        elif r < 0.35:
            ops.append({"op": "construct", "fam": rng.choice(["isv", "jfa"]),
                        "rs": rng.randint(0, 1000)})
        elif r < 0.42:
            ops.append({"op": "unrelated_fit", "what": rng.choice(["kmeans", "ivector", "isv", "featchunk"]),
                        "seed": rng.randint(0, 1000)})
        elif r < 0.50:
            # the same estimator class and configuration trained on OTHER data of the same shape,
            # dtype, labels and (for Dask) chunk structure: anything remembered per shape, per
            # configuration or per object identity would leak into the next fit of the target
            sb = {"op": "sibling_fit", "backend": rng.choice(backends),
                  "k": rng.choice([0.7, 1.01, 1.5]), "shift": rng.choice([0.0, 0.3])}
            if sb["backend"] != "np":
                sb["sched"] = gen_sched(rng)
            ops.append(sb)
        else:
            pres = rng.choice(["identity", "identity", "perm", "relabel" if labelled else "perm",
                               "both" if labelled else "perm"])
            o = {"op": "fit", "pres": pres, "backend": rng.choice(backends)}
            if pres in ("perm", "both"):
                o["perm"] = _perm(rng, n_items)
            if pres in ("relabel", "both"):
                sg = list(range(nc))
                rng.shuffle(sg)
                o["sigma"] = sg
            if o["backend"] != "np":
                o["sched"] = gen_sched(rng)
            if est in ("isv", "jfa", "isv_array", "jfa_array") and rng.random() < 0.2:
                o["rejected_first"] = True
            if est in ("kmeans", "gmm", "gmm_kminit") and rng.random() < 0.25:
                # (not for ISV / JFA: they draw U, V and D when they are constructed, and those
                # matrices are state that training continues from - a seed assigned later
                # configures nothing that is still to be drawn)
                o["seed_via"] = rng.choice(["set_params", "attribute"])
            ops.append(o)
            fits_done += 1
    if case["cfg"].get("seeded") and rng.random() < 0.5:
        # seeded initialisers are the part of these trainers most exposed to process-wide
        # settings: make sure another (feature-chunked Dask) training happens between two fits
        fits = [i for i, o in enumerate(ops) if o["op"] == "fit"]
        if len(fits) >= 2:
            ops.insert(fits[1], {"op": "unrelated_fit", "what": "featchunk",
                                 "seed": rng.randint(0, 1000)})
    if est == "gmm_kminit" and rng.random() < 0.4:
        # the k-means trainer is one object shared by the target and its siblings, which are
        # configured differently (fewer / more EM steps, other switches)
        case["shared_km"] = True
        case["cfg"]["km_iter"] = rng.randint(1, 4)
        for o in ops:
            if o["op"] == "sibling_fit":
                o["cfg_delta"] = {"steps": rng.choice([1, 1, 2, 6]), "uv": rng.random() < 0.5,
                                  "uw": rng.random() < 0.5}
    if est in ("isv_array", "jfa_array") and rng.random() < 0.3:
        # the machine trains its own UBM (ubm=None, ubm_kwargs=...): one configuration dict is
        # shared by every estimator of the history (a seed sweep); the UBM's seeded k-means
        # start depends on the presentation (known finding), so fits are presented identically
        case["own_ubm"] = {"n_gaussians": 2, "max_fitting_steps": rng.randint(1, 3)}
        for o in ops:
            if o["op"] == "fit":
                o.update(pres="identity", backend="np")
                o.pop("perm", None), o.pop("sigma", None), o.pop("sched", None)
            elif o["op"] == "sibling_fit":
                o["backend"] = "np"
                o.pop("sched", None)
                o["rs"] = rng.randint(0, 1000)  # a sibling of the sweep has another seed
    if n_fits > 10:
        # long histories stay cheap: mostly in-memory fits, no thread-level simulation
        for o in ops:
            if o.get("backend") not in (None, "np"):
                if rng.random() < 0.8:
                    o["backend"] = "np"
                    o.pop("sched", None)
                elif o["sched"]["mode"] == "threads":
                    o["sched"] = dict(o["sched"], mode="shared")
    case["chunks"] = chunks
    case["ops"] = ops
    # an "integer random_state" may be a Python int or any NumPy integer scalar
    # k-means and WCCN re-initialise at every fit: training the SAME estimator object again
    # must give the same result as a fresh one (GMM / ISV / JFA continue from their state)
    case["reuse_obj"] = est in ("kmeans", "wccn", "gmm") and (long_lived or rng.random() < 0.4)
    if est == "gmm" and case["reuse_obj"]:
        # (thresholded: fits are only compared when presented identically)
        case["cfg"]["km_thr"] = rng.choice([None, 1e-5, 1e-3, 0.05])
        if n_fits > 10:  # the long-lived tail: hundreds of EM steps on one object
            # (a generous iteration limit and a threshold that ends training well before it, as
            # with the library's defaults of 200 steps and 1e-5)
            case["cfg"]["steps"] = rng.choice([60, 200])
            case["cfg"]["km_thr"] = rng.choice([1e-5, 1e-4, 1e-3])
            for o in ops:
                if o["op"] == "fit":
                    o.update(pres="identity", backend="np")
                    o.pop("perm", None), o.pop("sigma", None), o.pop("sched", None)
    if est == "kmeans" and case["reuse_obj"]:
        # with a threshold, fits are only compared when presented identically (a permutation
        # may legitimately flip a near-threshold stop)
        case["cfg"]["km_thr"] = rng.choice([None, 1e-5, 0.05, 0.25, 0.5])
        case["cfg"]["steps"] = rng.randint(1, 8)
    case["ydtype"] = rng.choice(["int64", "int64", "int32", "uint8", "uint16", "int8", "uint64"])
    if nc > 120 and case["ydtype"] in ("int8", "uint8"):
        case["ydtype"] = "int16"  # the label type must be able to hold the class ids
    case["cfg"]["rs_type"] = rng.choice(["int", "int", "int64", "int32", "uint32", "uint64"])
    return case


def fixed_cases(tier):
    """A small fixed batch evaluating presentation invariance for the seeded initialisers."""
    import random

    out = []
    for i in range(6 if tier == "quick" else 40):
        rng = random.Random(f"fixed16/{i}")
        out.append(gen_case(rng, tier, est=rng.choice(["kmeans", "gmm_kminit"]), seeded=True))
    # seeded estimators configured through set_params / attribute assignment vs the constructor
    for est in ("gmm", "kmeans", "gmm_kminit"):
        for i in range(8 if tier == "quick" else 40):
            rng = random.Random(f"fixed16-seedroute/{est}/{i}")
            c = gen_case(rng, tier, est=est, seeded=True)
            fits = [o for o in c["ops"] if o["op"] == "fit"]
            for j, o in enumerate(fits):
                o.update(pres="identity", backend="np")
                o.pop("perm", None), o.pop("sigma", None), o.pop("sched", None)
                o.pop("seed_via", None)
                if j % 2 == 1:
                    o["seed_via"] = rng.choice(["set_params", "attribute"])
            out.append(c)
    # long-lived estimator objects: one object trained dozens of times (hundreds of EM steps)
    for est in ("gmm", "gmm", "kmeans", "wccn"):
        for i in range(3 if tier == "quick" else 15):
            rng = random.Random(f"fixed16-long/{est}/{i}/{len(out)}")
            out.append(gen_case(rng, tier, est=est, seeded=False if est != "wccn" else None,
                                long_lived=True))
    return out


def sample_view(case):
    return trim(case, maxrows=5)


# ---------------------------------------------------------------------------
def _mk_ubm(u):
    from bob.learn.em import GMMMachine

    g = GMMMachine(u["c"])
    g.means = A(u["means"])
    g.variances = A(u["variances"])
    g.weights = A(u["weights"])
    return g


def _present(case, o):
    """Apply the presentation (sample permutation / class relabelling) to the data set."""
    perm = o.get("perm")
    sigma = o.get("sigma")
    out = {}
    if "X" in case:
        X = A(case["X"])
        out["X"] = X[perm] if perm is not None else X
    if "stats" in case:
        from .c12 import _mk_stats
        st = _mk_stats({"ubm": case["ubm"], "stats": case["stats"]})
        out["stats"] = [st[i] for i in perm] if perm is not None else st
    if "y" in case:
        y = list(case["y"])
        if perm is not None:
            y = [y[i] for i in perm]
        if sigma is not None:
            y = [sigma[v] for v in y]
        out["y"] = np.array(y, dtype=getattr(np, case.get("ydtype", "int64")))
    return out


def _seed(cfg):
    t = cfg.get("rs_type", "int")
    return int(cfg["rs"]) if t == "int" else getattr(np, t)(cfg["rs"])


_KEEP = {}


def _ctor_seed(cfg, o):
    """The seed given to the constructor: the configured one, or another one when the configured
    seed is applied afterwards through set_params() / attribute assignment (scikit-learn style)."""
    if o.get("seed_via") in ("set_params", "attribute"):
        return type(cfg["rs"])(int(cfg["rs"]) + 1)
    return cfg["rs"]


def _apply_seed(m, cfg, o, rec):
    via = o.get("seed_via")
    if via == "set_params":
        m.set_params(random_state=cfg["rs"])
    elif via == "attribute":
        m.random_state = cfg["rs"]
    if via:
        rec.probe("seed_configured_after_construction")
    return m


def _fit(case, o, rec, label):
    from bob.learn.em import GMMMachine, KMeansMachine, ISVMachine, JFAMachine, WCCN

    est, cfg = case["kind"], dict(case["cfg"])
    cfg["rs"] = _seed(cfg)
    data = _present(case, o)
    chunks = tuple(case["chunks"])
    backend = o["backend"]

    def under(fn):
        if backend == "np":
            with dask.config.set(scheduler="synchronous"):
                return fn()
        return rec.run(o["sched"], fn, np_seed=None, label=label)

    if est == "kmeans":
        init = "random" if False else (cfg["init_method"] if cfg["seeded"] else A(cfg["init"]))
        m = KMeansMachine(cfg["k"], init_method=init, max_iter=cfg["steps"],
                          convergence_threshold=cfg.get("km_thr"), random_state=_ctor_seed(cfg, o))
        _apply_seed(m, cfg, o, rec)
        if case.get("reuse_obj"):
            m = _KEEP.setdefault("est", m)
        X = data["X"]
        res = under(lambda: m.fit(da.from_array(X, chunks=(chunks, (X.shape[1],)))
                                  if backend == "da" else X))
        return [("centroids", np.asarray(res.centroids_, float), "s"),
                ("criterion", np.asarray(float(res.average_min_distance)), "s2")]
    if est in ("gmm", "gmm_kminit"):
        kw = dict(max_fitting_steps=cfg["steps"], convergence_threshold=cfg.get("km_thr"),
                  update_means=True,
                  update_variances=cfg["uv"], update_weights=cfg["uw"],
                  random_state=_ctor_seed(cfg, o))
        if cfg.get("mvut") is not None:
            kw["mean_var_update_threshold"] = cfg["mvut"]
        if est == "gmm_kminit":
            init = cfg["init_method"] if cfg["seeded"] else A(cfg["init"])
            km = KMeansMachine(cfg["k"], init_method=init, max_iter=cfg.get("km_iter", 2),
                               convergence_threshold=None, random_state=cfg["rs"])
            if case.get("shared_km") and not case.get("_pristine"):
                # one k-means trainer object configured once and handed to every GMM
                km = _KEEP.setdefault("km", km)
            g = _apply_seed(GMMMachine(cfg["k"], k_means_trainer=km, **kw), cfg, o, rec)
            g.variance_thresholds = cfg["vfloor"]
        else:
            g = _apply_seed(GMMMachine(cfg["k"], **kw), cfg, o, rec)
            if case.get("reuse_obj"):
                # one long-lived machine: put back to its start through the setters before every
                # training (it then must train like a new one)
                g = _KEEP.setdefault("est", g)
            g.variance_thresholds = cfg["vfloor"]
            if cfg["seeded"] and not case.get("reuse_obj"):
                # no start given: the machine builds its default k-means trainer from its seed
                rec.probe("gmm_default_initialisation_from_the_seed")
            else:
                g.means = A(cfg["init"])
                g.variances = A(cfg["variances"])
                g.weights = A(cfg["weights"])
        X = data["X"]
        res = under(lambda: g.fit(da.from_array(X, chunks=(chunks, (X.shape[1],)))
                                  if backend == "da" else X))
        return [("means", np.asarray(res.means, float), "s"),
                ("variances", np.asarray(res.variances, float), "s2"),
                ("weights", np.asarray(res.weights, float), "1")]
    if est in ("isv", "jfa", "isv_array", "jfa_array"):
        if case.get("own_ubm"):
            ukw = {"ubm": None,
                   "ubm_kwargs": dict(case["own_ubm"]) if case.get("_pristine") else
                   _KEEP.setdefault("ubm_kwargs", dict(case["own_ubm"]))}
        else:
            ukw = {"ubm": _mk_ubm(case["ubm"])}
        if est.startswith("isv"):
            m = ISVMachine(cfg["rU"], em_iterations=cfg["it"], relevance_factor=cfg["rf"],
                           random_state=_ctor_seed(cfg, o), **ukw)
        else:
            m = JFAMachine(cfg["rU"], cfg["rV"], em_iterations=cfg["it"],
                           relevance_factor=cfg["rf"], random_state=_ctor_seed(cfg, o), **ukw)
        _apply_seed(m, cfg, o, rec)
        if o.get("rejected_first"):
            # a first call with class ids that do not start at 0 is refused while the machine
            # is being initialised; the caller catches the exception and trains the same object
            ybad = np.asarray(data["y"]) + 1
            try:
                with dask.config.set(scheduler="synchronous"):
                    if est.endswith("_array"):
                        m.fit_using_array(data["X"], ybad)
                    else:
                        m.fit(data["stats"], ybad)
                refused = False
            except Exception as _e:
                if is_harness_bug(_e):
                    raise HarnessError(f"harness bug: {_e!r}")
                refused = True
            rec.probe("rejected_call_before_fit_" + ("raised" if refused else "accepted"))
            if not refused:
                # (accepted: the machine has legitimately been trained on other labels, and
                # ISV / JFA continue from their state - start again with a new one)
                if est.startswith("isv"):
                    m = ISVMachine(cfg["rU"], em_iterations=cfg["it"], relevance_factor=cfg["rf"],
                                   random_state=cfg["rs"], **ukw)
                else:
                    m = JFAMachine(cfg["rU"], cfg["rV"], em_iterations=cfg["it"],
                                   relevance_factor=cfg["rf"], random_state=cfg["rs"], **ukw)
            else:
                rec.faults["F10_rejected_call"] = rec.faults.get("F10_rejected_call", 0) + 1
        if est.endswith("_array"):
            X = data["X"]
            res = under(lambda: m.fit_using_array(
                da.from_array(X, chunks=(chunks, (X.shape[1],))) if backend == "da" else X,
                data["y"]))
        else:
            st = data["stats"]
            if backend == "bag":
                def go():
                    parts, i = {}, 0
                    for j, sz in enumerate(chunks):
                        parts[("verif-c16-bag", j)] = list(st[i:i + sz])
                        i += sz
                    return m.fit(db.Bag(parts, "verif-c16-bag", len(chunks)), data["y"])
                res = under(go)
            else:
                res = under(lambda: m.fit(st, data["y"]))
        out = [("U", np.asarray(res.U, float), "rel")]
        if est.startswith("jfa"):
            out += [("V", np.asarray(res.V, float), "rel"), ("D", np.asarray(res.D, float), "rel")]
        return out
    if est == "wccn":
        X = data["X"]
        wc = _KEEP.setdefault("est", WCCN()) if case.get("reuse_obj") else WCCN()

        def go():
            t = wc.fit(da.from_array(X, chunks=(chunks, (X.shape[1],)))
                       if backend == "da" else X, data["y"])
            w = t.weights
            return w.compute() if hasattr(w, "compute") else w
        return [("weights", np.asarray(under(go), float), "rel")]
    raise HarnessError(est)


def _near_tie(case, o):
    """k-means assignment near-ties on the identity trajectory -> precondition."""
    from bob.learn.em import KMeansMachine

    cfg = case["cfg"]
    if case["kind"] not in ("kmeans", "gmm_kminit") or cfg["seeded"]:
        return False
    X = A(case["X"])
    s = float(np.abs(X).max()) or 1.0
    steps = cfg["steps"] if case["kind"] == "kmeans" else 2
    for it in range(0, steps + 1):
        km = KMeansMachine(cfg["k"], init_method=A(cfg["init"]), max_iter=it,
                           convergence_threshold=None)
        with np.errstate(all="ignore"), dask.config.set(scheduler="synchronous"):
            c = np.asarray(km.fit(X.copy()).centroids_, float)
        if not np.isfinite(c).all():
            # an empty cluster gives a (deterministic) NaN centroid; from here on every run
            # must show the same NaN pattern, there is no tie left to flip
            return False
        d2 = ((X[None] - c[:, None]) ** 2).sum(-1)
        if d2.shape[0] > 1:
            if case.get("grid"):
                from .c04 import _ties_are_exact
                if _ties_are_exact(X, c, 1e-9 * s * s):
                    continue  # decided by first index on every path, not by rounding
            ds = np.sort(d2, axis=0)
            if ((ds[1] - ds[0]) <= 1e-9 * s * s).any():
                return True
    return False


def run_case(case, replay=None):
    from bob.learn.em import KMeansMachine, IVectorMachine, ISVMachine, JFAMachine

    rec = SimRec(replay)
    est = case["kind"]
    _KEEP.clear()
    rec.probe("same_estimator_object_refitted", bool(case.get("reuse_obj")))
    rec.probe("own_ubm_from_shared_ubm_kwargs", bool(case.get("own_ubm")))
    rec.probe("integer_grid_data_with_exact_ties", bool(case.get("grid")))
    rec.probe("k_means_trainer_object_shared_with_siblings", bool(case.get("shared_km")))
    if "X" in case:
        s = float(np.abs(A(case["X"])).max()) or 1.0
    else:
        s = 1.0
    np.random.seed(12345)
    if _near_tie(case, None):
        return Result.skip("near-tie", **rec.fields())
    if est == "wccn":
        X, yy = A(case["X"]), np.array(case["y"])
        S = np.zeros((X.shape[1], X.shape[1]))
        for lab in set(case["y"]):
            Z = X[yy == lab] - X[yy == lab].mean(axis=0)
            S += Z.T @ Z
        with np.errstate(all="ignore"):
            cond = np.linalg.cond(S)
        if not np.isfinite(cond) or cond > 1e6:
            return Result.skip("ill-conditioned", **rec.fields())
    results = []  # (op index, pres, backend, params, perm, sigma)
    if case.get("own_ubm") or case.get("shared_km"):
        # the reference: the target trained on its own, with containers nobody else has seen
        i0 = next(i for i, o in enumerate(case["ops"]) if o["op"] == "fit")
        try:
            with np.errstate(all="ignore"):
                results.append((i0, case["ops"][i0]["pres"], case["ops"][i0]["backend"],
                                _fit(dict(case, _pristine=True), case["ops"][i0], rec, "pristine")))
        except HarnessError:
            raise
        except Exception as e:
            if is_harness_bug(e):
                raise HarnessError(f"harness bug: {e!r}")
            results.append((i0, case["ops"][i0]["pres"], case["ops"][i0]["backend"], e))
    events_between = 0
    interleaved = False
    for i, o in enumerate(case["ops"]):
        name = o["op"]
        try:
            with np.errstate(all="ignore"):
                if name == "perturb_rng":
                    if o["how"] == "seed":
                        np.random.seed(o["v"] % (2 ** 32))
                    else:
                        np.random.rand(1 + o["v"] % 17)
                    rec.faults["F6_perturb_rng"] = rec.faults.get("F6_perturb_rng", 0) + 1
                    events_between += 1
                elif name == "construct":
                    ubm = _mk_ubm(case["ubm"]) if "ubm" in case else _tiny_ubm()
                    if o["fam"] == "isv":
                        ISVMachine(1, ubm=ubm, random_state=o["rs"])
                    else:
                        JFAMachine(1, 1, ubm=ubm, random_state=o["rs"])
                    rec.faults["F6_construct_reseeds"] = rec.faults.get("F6_construct_reseeds", 0) + 1
                    events_between += 1
                elif name == "sibling_fit":
                    sib = dict(case)
                    if "X" in case:
                        sib["X"] = L(A(case["X"]) * o["k"] + o["shift"])
                    if "stats" in case:
                        sib["stats"] = [dict(st, sum_px=L(A(st["sum_px"]) * o["k"]),
                                             n=L(A(st["n"]) * (2.0 - o["k"] if o["k"] < 2 else 1.0)))
                                        for st in case["stats"]]
                    sib["reuse_obj"] = False
                    if "rs" in o:
                        sib["cfg"] = dict(case["cfg"], rs=o["rs"])
                    if "cfg_delta" in o:
                        sib["cfg"] = dict(sib["cfg"], **o["cfg_delta"])
                    try:
                        _fit(sib, dict(o, pres="identity"), rec, f"op{i}")
                    except HarnessError:
                        raise
                    except Exception as _e:
                        if is_harness_bug(_e):
                            raise HarnessError(f"harness bug: {_e!r}")
                        pass  # the sibling's own success is irrelevant
                    rec.faults["F6_sibling_fit"] = rec.faults.get("F6_sibling_fit", 0) + 1
                    events_between += 1
                elif name == "unrelated_fit":
                    _unrelated(o)
                    rec.faults["F6_unrelated_fit_" + o["what"]] = \
                        rec.faults.get("F6_unrelated_fit_" + o["what"], 0) + 1
                    events_between += 1
                else:
                    params = _fit(case, o, rec, f"op{i}")
                    if results and events_between:
                        interleaved = True
                    results.append((i, o["pres"], o["backend"], params))
                    events_between += 1
        except HarnessError:
            raise
        except Exception as e:
            if is_harness_bug(e):
                raise HarnessError(f"harness bug: {e!r}")
            if name != "fit":
                raise HarnessError(f"environment op {name} raised {e!r}")
            results.append((i, o["pres"], o["backend"], e))
    # ---------------- oracle over the recorded history ----------------
    ok_results = [r for r in results if not isinstance(r[3], Exception)]
    exc_results = [r for r in results if isinstance(r[3], Exception)]
    if exc_results and ok_results:
        r = exc_results[0]
        return Result.violation("fit-raises-for-some-presentation",
                                {"op": r[0], "pres": r[1], "backend": r[2],
                                 "exception": repr(r[3])[:300]}, **rec.fields())
    if not ok_results:
        return Result.skip("all-fits-raise", **rec.fields())
    rec.note([[a for _, a, _ in r[3]] for r in ok_results])
    for a_i in range(len(ok_results)):
        for b_i in range(a_i + 1, len(ok_results)):
            ia, pa, ba, A_ = ok_results[a_i]
            ib, pb, bb, B_ = ok_results[b_i]
            if ba != bb:
                continue  # backend / chunking differences are C04 / C12's business
            oa, ob = case["ops"][ia], case["ops"][ib]
            same = pa == pb and oa.get("perm") == ob.get("perm") and oa.get("sigma") == ob.get("sigma")
            if not same and case["cfg"].get("km_thr") is not None:
                continue
            tol = TOL_SAME if same else TOL_PRES
            bad = _cmp(A_, B_, s, tol)
            if bad is not None:
                clause = "history-dependent" if same else "presentation-dependent"
                rec.probe("compared_pairs")
                return Result.violation(
                    clause, {"param": bad[0], "rel_diff": bad[1], "ops": [ia, ib],
                             "presentations": [pa, pb], "backend": ba, "estimator": est,
                             "a": L(dict_get(A_, bad[0])), "b": L(dict_get(B_, bad[0]))},
                    **rec.fields())
            rec.probe("pairs_same_presentation" if same else "pairs_different_presentation")
    f = rec.fields()
    f["nontrivial"] = interleaved and len(ok_results) >= 2
    f["tasks"] = f["tasks"] + len(case["ops"])
    return Result.ok(**f)


def _tiny_ubm():
    from bob.learn.em import GMMMachine

    g = GMMMachine(1)
    g.means = np.zeros((1, 2))
    g.variances = np.ones((1, 2))
    return g


def _unrelated(o):
    from bob.learn.em import KMeansMachine, IVectorMachine, ISVMachine, GMMStats

    rs = np.random.RandomState(o["seed"])
    if o["what"] == "kmeans":
        KMeansMachine(2, init_method="random", max_iter=2, random_state=o["seed"]).fit(rs.randn(8, 2))
        return
    if o["what"] == "featchunk":
        # another estimator trained on a Dask array that is also chunked along the features
        Xf = rs.randn(8, 4)
        with dask.config.set(scheduler="synchronous"):
            KMeansMachine(2, init_method=Xf[:2].copy(), max_iter=1).fit(
                da.from_array(Xf, chunks=((5, 3), (2, 2))))
        return
    ubm = _tiny_ubm()
    stats = [ubm.acc_stats(rs.randn(3, 2)) for _ in range(4)]
    if o["what"] == "ivector":
        IVectorMachine(ubm, dim_t=1, max_iterations=1).fit(stats)  # draws T from the global RNG
    else:
        ISVMachine(1, em_iterations=1, ubm=ubm, random_state=o["seed"]).fit(stats, np.array([0, 1, 0, 1]))


def signature(case, clause):
    cfg = case["cfg"]
    if case["kind"] in ("kmeans", "gmm_kminit") and cfg.get("seeded"):
        return "seeded-init x sample-permutation"
    if case["kind"] == "gmm" and cfg.get("seeded") and not case.get("reuse_obj"):
        # (a GMM without a given start builds its default, seeded, k-means trainer itself)
        return "seeded-init x sample-permutation"
    return case["kind"]


def shrink(case):
    ops = case["ops"]
    n = len(ops)
    for i in range(n - 1, -1, -1):
        rest = ops[:i] + ops[i + 1:]
        if sum(1 for o in rest if o["op"] == "fit") >= 2:
            yield dict(case, ops=rest)
    for i, o in enumerate(ops):
        if o["op"] == "fit" and o["backend"] != "np":
            o2 = {k: v for k, v in o.items() if k != "sched"}
            o2["backend"] = "np"
            yield dict(case, ops=ops[:i] + [o2] + ops[i + 1:])
            if o["sched"]["mode"] != "shared" or o["sched"]["policy"] != "fifo":
                yield dict(case, ops=ops[:i] + [dict(o, sched=dict(o["sched"], mode="shared",
                                                                   policy="fifo"))] + ops[i + 1:])
        if o["op"] == "fit" and o["pres"] == "both":
            yield dict(case, ops=ops[:i] + [{k: v for k, v in dict(o, pres="perm").items()
                                             if k != "sigma"}] + ops[i + 1:])
            yield dict(case, ops=ops[:i] + [{k: v for k, v in dict(o, pres="relabel").items()
                                             if k != "perm"}] + ops[i + 1:])
    if len(case["chunks"]) > 1:
        yield dict(case, chunks=[sum(case["chunks"])])
    cfg = case["cfg"]
    for key in ("steps", "it"):
        if cfg.get(key, 1) > 1:
            yield dict(case, cfg=dict(cfg, **{key: cfg[key] - 1}))
