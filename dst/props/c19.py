"""C19 — training and scoring never modify or alias caller-owned data.

Simulated system: a "caller" owning a pool of objects (data arrays, label sequences, lists of
GMMStats, a trained UBM, a prior, initial centroids, and every model it has trained so far)
and Dask collections built over those same objects.  A seeded history applies the public
entry points to pool objects, interleaved with caller interference: the caller overwrites
one of its own buffers in place and later restores it (DESIGN.md §5.7).

I1  every pool object not handed over for training is bit-for-bit unchanged after each call
I2  repeating an earlier call with the same pool objects returns a bitwise-equal result
I3  after the caller scribbles over an input, every model trained before is unchanged, and no
    model array shares memory with a pool array
"""
import copy
import operator

import dask.array as da
import dask.bag as db
import numpy as np

from ..sim import gen_sched, HarnessError
from ..util import A, L, Result, sig6, digest, random_composition, rel_diff, is_harness_bug
from .common import SimRec, gen_simplex, trim, tail

ID = "C19"
CHUNK = 4
BUDGET = {"quick": 70, "thorough": 900}
MAX_RUNS = {"quick": 3000, "thorough": 200000}

RULE = (
    "One run = one seeded history of 5..30 calls by a caller that owns a pool (two data arrays, "
    "labels, 6..10 GMM statistics with labels, a trained UBM, a MAP prior, initial centroids, all "
    "models trained so far) and Dask collections over the same objects: fit of k-means (incl. "
    "max_iter=0), GMM ML/MAP, ISV/JFA (list, bag, fit_using_array), i-vector (list, bag), WCCN, "
    "whitening; enroll / enroll_using_array / score / score_using_array / estimate_x / "
    "estimate_ux / transform / predict / project / acc_stats / log_likelihood / linear_scoring / "
    "statistics + and += with a fresh left operand / cluster variances and weights; plus "
    "scribble(obj): the caller overwrites one of its own buffers (training data, a statistic, the "
    "initial centroids, the prior's arrays) in place and restores it. Invariants I1-I3 after every "
    "call. Dask calls run under a random executor model; under 'shared' an in-place operation "
    "inside a task lands in the caller's memory. Non-trivial = history has >= 1 training call and "
    ">= 1 later call; distinct = distinct case digest + event-log digest."
)
ASSUMPTIONS = [
    "deep digest = BLAKE2 over array bytes, scalars and visible parameters of every pool object",
    "repeat calls are made with NumPy's global RNG re-seeded to the value used the first time",
    "assigning an array through a GMM setter is the caller's own aliasing and is avoided by "
    "handing copies to setters; the property's aliasing clauses concern training data, "
    "statistics, k-means initial centroids and the MAP prior",
]
COMPONENTS = {
    "real": ["bob.learn.em (all public entry points listed in the property)",
             "dask.array / dask.bag graph construction", "cloudpickle"],
    "stub": ["Dask scheduler (SimScheduler)", "the caller (harness)"],
}

TRAIN_OPS = ["kmeans_fit", "gmm_ml_fit", "gmm_map_fit", "isv_fit", "jfa_fit", "iv_fit",
             "isv_fit_array", "jfa_fit_array", "wccn_fit", "whitening_fit"]
USE_OPS = ["parallel_ubm_stats", "parallel_model_use", "ubm_acc_stats", "ubm_transform", "ubm_ll", "km_use", "km_varw", "isv_enroll",
           "jfa_enroll", "isv_enroll_array", "jfa_enroll_array", "isv_score", "jfa_score",
           "isv_score_array", "jfa_score_array", "isv_estimate", "jfa_estimate", "isv_transform",
           "iv_project", "iv_transform", "linear_scoring", "stats_add", "stats_iadd",
           "stats_accumulate_recycled",
           "lin_transform", "map_ll", "map_snapshot_refit"]
NEEDS = {"km_use": "km", "km_varw": "km", "isv_enroll": "isv", "jfa_enroll": "jfa",
         "isv_enroll_array": "isv", "jfa_enroll_array": "jfa", "isv_score": "z_isv",
         "jfa_score": "yz_jfa", "isv_score_array": "z_isv", "jfa_score_array": "yz_jfa",
         "isv_estimate": "isv", "jfa_estimate": "jfa", "isv_transform": "isv",
         "iv_project": "iv", "iv_transform": "iv", "lin_transform": "lin", "map_ll": "map",
         "map_snapshot_refit": "map"}
PRODUCES = {"kmeans_fit": "km", "gmm_ml_fit": "gmm", "gmm_map_fit": "map", "isv_fit": "isv",
            "jfa_fit": "jfa", "iv_fit": "iv", "isv_fit_array": "isv", "jfa_fit_array": "jfa",
            "wccn_fit": "lin", "whitening_fit": "lin", "isv_enroll": "z_isv",
            "jfa_enroll": "yz_jfa", "isv_enroll_array": "z_isv", "jfa_enroll_array": "yz_jfa"}
USES = {"linear_scoring": ["map"], "isv_score": ["isv", "z_isv"], "jfa_score": ["jfa", "yz_jfa"],
        "isv_score_array": ["isv", "z_isv"], "jfa_score_array": ["jfa", "yz_jfa"]}


def _used(pool, opname):
    if opname == "parallel_model_use":
        return sorted((k, obj_digest(v)) for k, v in pool.models.items())
    slots = USES.get(opname) or ([NEEDS[opname]] if NEEDS.get(opname) else [])
    return [obj_digest(pool.models.get(s)) for s in slots]


SCRIBBLE_TARGETS = ["X0", "X1", "stat", "init_c", "prior_means", "prior_variances",
                    "prior_weights", "y0", "ubm_means"]


def setup():
    pass


# ---------------------------------------------------------------------------
def gen_case(rng, tier):
    rs = np.random.RandomState(rng.getrandbits(32))
    d = tail(rng, 1, 3, [9, 17], 0.04)
    c = tail(rng, 1, 2, [5, 9], 0.04)
    scale = 10.0 ** rng.uniform(-1, 1)
    means = sig6(rs.randn(c, d) * 2 * scale)
    variances = sig6(rs.uniform(0.5, 2.0, size=(c, d)) * scale * scale)
    n0, n1 = rng.randint(8, 14), rng.randint(6, 10)
    X0 = sig6(means[rs.randint(0, c, size=n0)] + rs.randn(n0, d) * scale)
    X1 = sig6(means[rs.randint(0, c, size=n1)] + rs.randn(n1, d) * scale)
    nc = rng.randint(2, 3)
    y0 = list(range(nc)) + [rng.randrange(nc) for _ in range(n0 - nc)]
    rng.shuffle(y0)
    N = tail(rng, 6, 10, [17, 33], 0.04)
    ys = list(range(nc)) + [rng.randrange(nc) for _ in range(N - nc)]
    rng.shuffle(ys)
    stat_rows = [sorted(rng.sample(range(n0), rng.randint(2, 4))) for _ in range(N)]
    if rng.random() < 0.35:
        # segments without frames (all frames removed by VAD, empty partition): valid statistics
        for _ in range(rng.randint(1, 2)):
            stat_rows[rng.randrange(N)] = []
    k = rng.randint(1, 3)
    init_c = sig6(X0[rs.choice(n0, size=k, replace=False)] + rs.randn(k, d) * 0.05 * scale)
    xbig = rng.choice([1025, 4097, 5000, 9000]) if rng.random() < 0.06 else 0
    n_ops = rng.randint(5, 30 if tier == "thorough" else 16)
    if rng.random() < 0.05:
        n_ops = rng.randint(45, 90)  # a long-lived service
    ops, have = [], set()
    history_calls = []
    for i in range(n_ops):
        r = rng.random()
        if r < 0.30 or not have:
            name = rng.choice(TRAIN_OPS)
        elif r < 0.75:
            cands = [o for o in USE_OPS if NEEDS.get(o) is None or NEEDS[o] in have]
            name = rng.choice(cands)
        elif r < 0.87 and history_calls:
            ops.append({"op": "repeat", "of": rng.choice(history_calls)})
            continue
        else:
            ops.append({"op": "scribble", "target": rng.choice(SCRIBBLE_TARGETS),
                        "idx": rng.randrange(N)})
            continue
        xname = rng.choice(["X0", "X1"])
        if xbig and name in ("kmeans_fit", "gmm_ml_fit", "gmm_map_fit", "km_varw", "km_use",
                             "ubm_acc_stats", "ubm_ll", "map_ll", "lin_transform") \
                and rng.random() < 0.6:
            xname = "Xbig"  # a data set / block of thousands of rows
        o = {"op": name, "np_seed": rng.randint(0, 2 ** 31 - 1), "X": xname,
             "backend": rng.choice(["np", "np", "da", "bag"]),
             "sel": rng.sample(range(N), min(N, tail(rng, 1, min(5, N), [9, 17], 0.04))),
             "it": rng.randint(1, 2), "flag": rng.random() < 0.5,
             "max_iter": rng.choice([0, 0, 1, 2, 3]),
             "init": rng.choice(["array", "array", "random"]),
             "yform": rng.choice(["list", "array"]),
             "um": rng.random() < 0.8, "uv": rng.random() < 0.5, "uw": rng.random() < 0.5}
        if name == "stats_accumulate_recycled":
            o["reps"] = rng.choice([2, 3, 5, 9, 17, 20, 33, 40])
        if name in ("gmm_map_fit", "gmm_ml_fit"):
            o["rejected_first"] = rng.random() < 0.25
        if name in ("isv_fit", "jfa_fit", "isv_fit_array", "jfa_fit_array"):
            o["with_ubm_kwargs"] = rng.random() < 0.3
        if name == "gmm_map_fit":
            # enrolment from a very short (or empty) utterance, and a raised occupancy threshold:
            # possibly no component gathers enough evidence to move
            o["short"] = rng.choice([None, None, None, 0, 1, 3])
            o["mvu"] = rng.choice([None, None, None, 5.0, 1e6])
        if o["backend"] in ("da", "bag"):
            o["sched"] = gen_sched(rng)
            o["chunks_frac"] = rng.randint(1, 4)
            o["npart"] = rng.randint(1, N)
        ops.append(o)
        if name in PRODUCES:
            have.add(PRODUCES[name])
        history_calls.append(len(ops) - 1)
    return {
        "kind": "history", "c": c, "d": d, "nc": nc,
        "ubm": {"means": L(means), "variances": L(variances), "weights": L(gen_simplex(rng, c))},
        "prior": {"means": L(sig6(means + rs.randn(c, d) * 0.3 * scale)),
                  "variances": L(sig6(variances * rs.uniform(0.7, 1.4, size=(c, d)))),
                  "weights": L(gen_simplex(rng, c))},
        "X0": L(X0), "X1": L(X1), "y0": y0, "ys": ys, "stat_rows": stat_rows,
        "xlayout": rng.choice(["C", "C", "F", "strided", "transposed", "f32"]),
        "xbig": xbig,
        # label arrays as read from files written on another platform / by another tool
        "ydtype": rng.choice(["int64"] * 6 + [">i8", ">i4", "int32", "uint8"]),
        # a prior component far from all data (no evidence reaches it during adaptation)
        "prior_far": rng.random() < 0.3,
        # memory-mapped / shared data is typically handed over read-only: a library that only
        # reads its inputs never notices
        "readonly": rng.random() < 0.1,
        "init_c": L(init_c), "rU": rng.randint(1, 2), "rV": rng.randint(1, 2),
        "dim_t": rng.randint(1, 2), "ops": ops,
    }


def sample_view(case):
    return trim(case, maxrows=5)


# ---------------------------------------------------------------------------
def _layout(case, X):
    """The caller's arrays come in every valid memory layout."""
    lay = case.get("xlayout", "C")
    if lay == "F":
        return np.asfortranarray(X)
    if lay == "strided":
        big = np.zeros((X.shape[0] * 2, X.shape[1] + 1))
        big[::2, :-1] = X
        return big[::2, :-1]
    if lay == "transposed":  # a (features, samples) store handed over as .T
        return np.ascontiguousarray(X.T).T
    if lay == "f32":
        return X.astype(np.float32)
    return X


class Pool:
    def __init__(self, case):
        from bob.learn.em import GMMMachine

        self.case = case
        c = case["c"]
        self.X0, self.X1 = _layout(case, A(case["X0"])), _layout(case, A(case["X1"]))
        if case.get("xbig"):
            rb = np.random.RandomState(case["xbig"])
            self.Xbig = _layout(case, self.X0[rb.randint(0, len(self.X0), size=case["xbig"])]
                                + rb.randn(case["xbig"], self.X0.shape[1]) * 0.1)
        else:
            self.Xbig = self.X1
        if case.get("readonly"):
            for arr in (self.X0, self.X1, self.Xbig):
                arr.flags.writeable = False
        self.y0_list = list(case["y0"])
        self.y0_arr = np.array(case["y0"], dtype=np.dtype(case.get("ydtype", "int64")))
        self.ys_arr = np.array(case["ys"], dtype=np.dtype(case.get("ydtype", "int64")))
        self.ys_list = list(case["ys"])
        self.init_c = A(case["init_c"])
        self.ubm = GMMMachine(c)
        self.ubm.weights = A(case["ubm"]["weights"])
        self.ubm.means = A(case["ubm"]["means"])
        self.ubm.variances = A(case["ubm"]["variances"])
        self.prior = GMMMachine(c)
        self.prior.weights = A(case["prior"]["weights"])
        self.prior.means = A(case["prior"]["means"])
        self.prior.variances = A(case["prior"]["variances"])
        if case.get("prior_far"):
            pm = np.array(self.prior.means)
            pm[-1] += 1e4 * (np.abs(self.X0).max() + 1.0)
            self.prior.means = pm
        # option arrays the caller owns and re-uses for several machines
        self.alpha_arr = np.full(c, 0.5)
        self.ubm_kwargs = {"n_gaussians": c, "max_fitting_steps": 3, "update_variances": True,
                           "update_weights": True, "convergence_threshold": 1e-3}
        self.init_weights = np.array(self.ubm.weights)
        rs_ = np.random.RandomState(len(case["X0"]) * 7 + c)
        self.offsets = rs_.randn(c, self.X0.shape[1]) * 0.1      # caller-owned channel offsets
        self.model_means = np.array([np.array(self.prior.means), np.array(self.ubm.means) * 1.1])
        self.stats = [self.ubm.acc_stats(self.X0[rows].copy() if rows else
                                         np.zeros((0, self.X0.shape[1])))
                      for rows in case["stat_rows"]]
        if case.get("readonly"):
            self.init_c.flags.writeable = False
            self.offsets.flags.writeable = False
            self.model_means.flags.writeable = False
            for st in self.stats:
                for f in (st.n, st.sum_px, st.sum_pxx):
                    f.flags.writeable = False
        self.models = {}

    def X(self, name):
        return {"X0": self.X0, "X1": self.X1, "Xbig": self.Xbig}[name]

    def arrays(self):
        """Every caller-owned ndarray (for shares_memory checks)."""
        out = [("X0", self.X0), ("X1", self.X1), ("Xbig", self.Xbig), ("init_c", self.init_c),
               ("y0", self.y0_arr), ("ys", self.ys_arr), ("offsets", self.offsets),
               ("alpha_arr", self.alpha_arr),
               # (init_weights is NOT listed: a `weights=` constructor argument is kept by
               #  reference like any array assigned through a setter - the caller's own aliasing,
               #  not one of the aliasing clauses of the property; it must only stay unchanged)
               ("model_means", self.model_means)]
        for nm, g in (("ubm", self.ubm), ("prior", self.prior)):
            out += [(f"{nm}.means", np.asarray(g.means)), (f"{nm}.variances", np.asarray(g.variances)),
                    (f"{nm}.weights", np.asarray(g.weights))]
        for i, s in enumerate(self.stats):
            out += [(f"stats[{i}].n", s.n), (f"stats[{i}].sum_px", s.sum_px),
                    (f"stats[{i}].sum_pxx", s.sum_pxx)]
        return out

    def input_digests(self):
        dg = {"X0": digest(self.X0), "X1": digest(self.X1), "Xbig": digest(self.Xbig), "y0_list": digest(self.y0_list),
              "y0_arr": digest(self.y0_arr), "ys_arr": digest(self.ys_arr),
              "ys_list": digest(self.ys_list), "init_c": digest(self.init_c),
              "offsets": digest(self.offsets), "model_means": digest(self.model_means),
              "alpha_arr": digest(self.alpha_arr), "init_weights": digest(self.init_weights),
              "ubm": obj_digest(self.ubm), "prior": obj_digest(self.prior),
              "ubm_kwargs": digest(sorted((k, repr(v)) for k, v in self.ubm_kwargs.items()))}
        for i, s in enumerate(self.stats):
            dg[f"stats[{i}]"] = obj_digest(s)
        return dg

    def model_digests(self):
        return {k: obj_digest(v) for k, v in self.models.items()}

    def param_digests(self):
        """Trained parameters only (a model legitimately *references* the caller's UBM/prior)."""
        return {k: digest(model_arrays(v)) for k, v in self.models.items()}


def obj_digest(o):
    from bob.learn.em import GMMMachine, GMMStats, KMeansMachine, ISVMachine, JFAMachine, \
        IVectorMachine

    if isinstance(o, GMMStats):
        return digest("stats", int(o.t), float(o.log_likelihood), np.asarray(o.n),
                      np.asarray(o.sum_px), np.asarray(o.sum_pxx), int(o.n_gaussians),
                      int(o.n_features))
    if isinstance(o, GMMMachine):
        return digest("gmm", np.asarray(o.weights), np.asarray(o.means), np.asarray(o.variances),
                      np.asarray(o.variance_thresholds), np.asarray(o.log_weights),
                      np.asarray(o.g_norms), str(o.trainer),
                      # the object's settings are as much the caller's as its arrays
                      [repr(getattr(o, a, None)) for a in
                       ("max_fitting_steps", "convergence_threshold", "update_means",
                        "update_variances", "update_weights", "mean_var_update_threshold",
                        "map_relevance_factor", "random_state")],
                      np.asarray(o.map_alpha) if getattr(o, "map_alpha", None) is not None else None,
                      obj_digest(o.ubm) if o.ubm is not None else None)
    if isinstance(o, KMeansMachine):
        return digest("km", np.asarray(o.centroids_))
    if isinstance(o, (ISVMachine, JFAMachine)):
        return digest("fa", np.asarray(o.U), np.asarray(o.V), np.asarray(o.D), obj_digest(o.ubm))
    if isinstance(o, IVectorMachine):
        return digest("iv", np.asarray(o.T), np.asarray(o.sigma), obj_digest(o.ubm))
    if isinstance(o, (tuple, list)):
        return digest([obj_digest(x) for x in o])
    if isinstance(o, np.ndarray):
        return digest(o)
    if hasattr(o, "weights") and hasattr(o, "input_subtract"):
        return digest("lin", np.asarray(o.weights), np.asarray(o.input_subtract))
    return digest(o)


def model_arrays(o):
    from bob.learn.em import GMMMachine, KMeansMachine, ISVMachine, JFAMachine, IVectorMachine

    if isinstance(o, GMMMachine):
        return [np.asarray(o.weights), np.asarray(o.means), np.asarray(o.variances)]
    if isinstance(o, KMeansMachine):
        return [np.asarray(o.centroids_)]
    if isinstance(o, (ISVMachine, JFAMachine)):
        return [np.asarray(o.U), np.asarray(o.V), np.asarray(o.D)]
    if isinstance(o, IVectorMachine):
        return [np.asarray(o.T), np.asarray(o.sigma)]
    if isinstance(o, (tuple, list)):
        return [a for x in o for a in model_arrays(x)]
    if isinstance(o, np.ndarray):
        return [o]
    if hasattr(o, "weights") and hasattr(o, "input_subtract"):
        return [np.asarray(o.weights), np.asarray(o.input_subtract)]
    return []


def res_digest(r):
    if isinstance(r, (list, tuple)):
        return digest([res_digest(x) for x in r])
    if hasattr(r, "compute"):
        r = r.compute()
    try:
        return obj_digest(r)
    except Exception as _e:
        if is_harness_bug(_e):
            raise HarnessError(f"harness bug: {_e!r}")
        return digest(repr(type(r)))


# ---------------------------------------------------------------------------
def _call(pool, o, rec, label):
    """Perform one public call; returns (result, produced_model_or_None)."""
    from bob.learn.em import (GMMMachine, KMeansMachine, ISVMachine, JFAMachine,
                              IVectorMachine, WCCN, Whitening, GMMStats, linear_scoring)

    case = pool.case
    name = o["op"]
    X = pool.X(o["X"])
    use_da = o["backend"] == "da"
    use_bag = o["backend"] == "bag"
    sched = o.get("sched")
    np.random.seed(o["np_seed"] % (2 ** 32))

    def dX(arr):
        n = arr.shape[0]
        k = max(1, min(n, o.get("chunks_frac", 1)))
        rows = tuple(random_chunks(n, k))
        return da.from_array(arr, chunks=(rows, (arr.shape[1],)))

    def under_sim(fn):
        if sched is None:
            return fn()
        return rec.run(sched, fn, np_seed=o["np_seed"], label=label)

    sel = [pool.stats[i] for i in o["sel"]]
    ylab = pool.y0_list if o["yform"] == "list" else pool.y0_arr

    if name == "kmeans_fit":
        init = pool.init_c if o["init"] == "array" else "random"
        km = KMeansMachine(len(case["init_c"]), init_method=init, max_iter=o["max_iter"],
                           random_state=o["np_seed"] % 1000)
        if o["init"] == "array":
            rec.probe("kmeans_explicit_init_max_iter_0", o["max_iter"] == 0)
        res = under_sim(lambda: km.fit(dX(X))) if use_da else km.fit(X)
        return np.array(res.centroids_), res
    if name in ("gmm_ml_fit", "gmm_map_fit"):
        kw = dict(max_fitting_steps=o["it"], update_means=o["um"], update_variances=o["uv"],
                  update_weights=o["uw"], convergence_threshold=None)
        if name == "gmm_map_fit":
            if o.get("mvu") is not None:
                kw["mean_var_update_threshold"] = o["mvu"]
            if o.get("short") is not None:
                X = X[:o["short"]]
            rec.probe("map_adaptation_where_no_component_may_move",
                      o.get("mvu") is not None or o.get("short") is not None)
            if o["flag"]:  # fixed adaptation ratios given as the caller's array
                kw.update(map_relevance_factor=None, map_alpha=pool.alpha_arr)
            g = GMMMachine(case["c"], trainer="map", ubm=pool.prior, **kw)
        else:
            if o["flag"]:
                kw["weights"] = pool.init_weights  # constructor argument owned by the caller
            g = GMMMachine(case["c"], **kw)
            if not o["flag"]:
                g.weights = np.array(pool.ubm.weights)
            g.means = np.array(pool.ubm.means)
            g.variances = np.array(pool.ubm.variances)
        if o.get("rejected_first") and X.shape[1] >= 2:
            # a call with data of another feature dimension is refused; the caller catches the
            # exception and trains the same machine
            try:
                g.fit(np.concatenate([np.asarray(X, float), np.asarray(X, float)[:, :1]], axis=1))
                rec.probe("wrong_dimension_fit_accepted")
            except Exception as _e:
                if is_harness_bug(_e):
                    raise HarnessError(f"harness bug: {_e!r}")
                rec.probe("wrong_dimension_fit_refused_then_same_machine_trained")
                rec.faults["F10_rejected_call"] = rec.faults.get("F10_rejected_call", 0) + 1
        res = under_sim(lambda: g.fit(dX(X))) if use_da else g.fit(X)
        return [np.array(res.means), np.array(res.variances), np.array(res.weights)], res
    if name in ("isv_fit", "jfa_fit", "isv_fit_array", "jfa_fit_array"):
        ukw = {}
        if o.get("with_ubm_kwargs"):
            # a project-wide UBM configuration dict is passed along with the trained UBM
            ukw["ubm_kwargs"] = pool.ubm_kwargs
            rec.probe("ubm_and_ubm_kwargs_given_together")
        if name.startswith("isv"):
            m = ISVMachine(case["rU"], em_iterations=o["it"], ubm=pool.ubm,
                           random_state=o["np_seed"] % 1000, **ukw)
        else:
            m = JFAMachine(case["rU"], case["rV"], em_iterations=o["it"], ubm=pool.ubm,
                           random_state=o["np_seed"] % 1000, **ukw)
        if name.endswith("_array"):
            if use_da or use_bag:
                if sched is None:
                    raise HarnessError("dask op without sched")
                res = under_sim(lambda: m.fit_using_array(dX(pool.X0), ylab))
            else:
                res = m.fit_using_array(pool.X0, ylab)
        else:
            ys = pool.ys_list if o["yform"] == "list" and (use_da or use_bag) else pool.ys_arr
            if use_da or use_bag:
                res = under_sim(lambda: m.fit(
                    db.from_sequence(pool.stats, npartitions=o["npart"]), ys))
            else:
                res = m.fit(pool.stats, pool.ys_arr)
        return [np.array(res.U), np.array(res.V), np.array(res.D)], res
    if name == "iv_fit":
        m = IVectorMachine(pool.ubm, dim_t=case["dim_t"], max_iterations=o["it"],
                           update_sigma=o["flag"])
        if use_da or use_bag:
            res = under_sim(lambda: m.fit(db.from_sequence(pool.stats, npartitions=o["npart"])))
        else:
            res = m.fit(pool.stats)
        return [np.array(res.T), np.array(res.sigma)], res
    if name in ("wccn_fit", "whitening_fit"):
        Xw = pool.X0
        if Xw.shape[1] < 2 and name == "whitening_fit":
            return None, None
        t = WCCN() if name == "wccn_fit" else Whitening()
        if use_da:
            res = under_sim(lambda: _lin_fit(t, dX(Xw), ylab, name))
        else:
            res = _lin_fit(t, Xw, ylab, name)
        return [np.array(res.weights), np.array(res.input_subtract)], res
    # ---------------- uses ----------------
    if name == "parallel_ubm_stats":
        # several caller threads score against the caller's UBM at the same time
        import dask
        from ..sim import gen_sched as _gs
        blocks = [b for b in np.array_split(X, 3) if len(b)]
        sch = dict(o.get("sched") or {"policy": "random", "workers": 3, "stall_p": 0.5,
                                      "seed": o["np_seed"]}, mode="threads")

        def go():
            return dask.compute(*[dask.delayed(pool.ubm.acc_stats)(b) for b in blocks])
        return list(rec.run(sch, go, np_seed=o["np_seed"], label=label)), None
    if name == "parallel_model_use":
        # several caller threads call public methods of the SAME trained objects at once; each
        # must get what it would get alone
        import dask
        calls = [("ubm.acc_stats", lambda: pool.ubm.acc_stats(X[:4])),
                 ("ubm.ll", lambda: pool.ubm.log_likelihood(X[:5])),
                 ("ubm.ll2", lambda: pool.ubm.log_likelihood(X[2:7])),
                 ("ubm.lwl", lambda: pool.ubm.log_weighted_likelihood(X[:3]))]
        mm = pool.models
        if "km" in mm and np.isfinite(np.asarray(mm["km"].centroids_)).all():
            calls.append(("km.predict", lambda: mm["km"].predict(X[:6])))
        for fam, zname in (("isv", "z_isv"), ("jfa", "yz_jfa")):
            if fam in mm:
                mm[fam].enroll_iterations = o["it"]  # (set by the harness, so set it every time)
                calls.append((fam + ".estimate_x", lambda fam=fam: mm[fam].estimate_x(sel)))
                calls.append((fam + ".enroll", lambda fam=fam: mm[fam].enroll(sel)))
                calls.append((fam + ".enroll_using_array", lambda fam=fam:
                              mm[fam].enroll_using_array(X[:5])))
                if zname in mm:
                    calls.append((fam + ".score", lambda fam=fam, zname=zname:
                                  mm[fam].score(mm[zname], sel)))
                    calls.append((fam + ".score_using_array", lambda fam=fam, zname=zname:
                                  mm[fam].score_using_array(mm[zname], [X[:4], X[4:8]])))
                    calls.append((fam + ".score2", lambda fam=fam, zname=zname:
                                  mm[fam].score(mm[zname], list(pool.stats[:3]))))
        if "iv" in mm:
            calls.append(("iv.project", lambda: mm["iv"].project(sel[0])))
        if "map" in mm:
            calls.append(("map.acc_stats", lambda: mm["map"].acc_stats(X[:4])))
        sch = dict(o.get("sched") or {"policy": "random", "workers": 3, "stall_p": 0.5,
                                      "seed": o["np_seed"]}, mode="threads")

        def go():
            return dask.compute(*[dask.delayed(f)() for _, f in calls])
        together = rec.run(sch, go, np_seed=o["np_seed"], label=label)
        alone = [f() for _, f in calls]
        for (nm, _), a, b in zip(calls, together, alone):
            if res_digest(a) != res_digest(b):
                raise _ConcurrentDiffers(nm)
        rec.probe("concurrent_public_calls_compared", len(calls))
        return [res_digest(a) for a in together], None
    if name == "ubm_acc_stats":
        return pool.ubm.acc_stats(X), None
    if name == "ubm_transform":
        return pool.ubm.transform([X[:3], X[3:]]), None
    if name == "ubm_ll":
        return [pool.ubm.log_likelihood(X), pool.ubm.log_weighted_likelihood(X)], None
    if name == "map_ll":
        m = pool.models["map"]
        return [m.log_likelihood(X), m.acc_stats(X)], None
    if name == "map_snapshot_refit":
        # the program snapshots its adapted machine (deep copy: the snapshot owns a copy of the
        # prior), keeps using the original, re-purposes the prior object it owns, and then trains
        # the snapshot: the snapshot must behave as it did before the prior changed
        import copy as _copy
        snap = _copy.deepcopy(pool.models["map"])
        ref = _copy.deepcopy(snap).fit(X)
        ref = [np.array(ref.means), np.array(ref.variances), np.array(ref.weights)]
        restore = None
        if np.asarray(pool.prior.means).flags.writeable:
            restore = _scribble(pool, {"target": ("prior_means", "prior_variances",
                                                  "prior_weights")[o["np_seed"] % 3], "idx": 0})
            rec.faults["F7_scribble_prior_while_snapshot_lives"] = \
                rec.faults.get("F7_scribble_prior_while_snapshot_lives", 0) + 1
        try:
            got = snap.fit(X)
            got = [np.array(got.means), np.array(got.variances), np.array(got.weights)]
        finally:
            if restore is not None:
                restore()
        if res_digest(ref) != res_digest(got):
            raise _ResultFollowsOperand("a deep-copied snapshot of a MAP machine follows later "
                                        "changes to the arrays of the original's prior")
        return got, None
    if name == "km_use":
        km = pool.models["km"]
        return [km.transform(X), km.predict(X)], None
    if name == "km_varw":
        km = pool.models["km"]
        if not np.isfinite(np.asarray(km.centroids_)).all():
            return None, None
        if use_da:
            return list(under_sim(lambda: km.get_variances_and_weights_for_each_cluster(dX(X)))), None
        return list(km.get_variances_and_weights_for_each_cluster(X)), None
    if name in ("isv_enroll", "jfa_enroll"):
        m = pool.models[name[:3]]
        m.enroll_iterations = o["it"]
        before = list(sel)
        r = m.enroll(sel)
        if len(sel) != len(before) or any(a is not b for a, b in zip(sel, before)):
            raise _ContainerMutated("enroll changed the caller's list of statistics")
        return r, r
    if name in ("isv_enroll_array", "jfa_enroll_array"):
        m = pool.models[name[:3]]
        m.enroll_iterations = o["it"]
        r = m.enroll_using_array(X)
        return r, r
    if name in ("isv_score", "jfa_score", "isv_score_array", "jfa_score_array"):
        fam = name[:3]
        m = pool.models[fam]
        model = pool.models["z_isv" if fam == "isv" else "yz_jfa"]
        if name.endswith("_array"):
            return m.score_using_array(model, [X[:4], X[4:]]), None
        before = list(sel)
        r = m.score(model, sel)
        if len(sel) != len(before) or any(a is not b for a, b in zip(sel, before)):
            raise _ContainerMutated("score changed the caller's list of statistics")
        return r, None
    if name in ("isv_estimate", "jfa_estimate"):
        m = pool.models[name[:3]]
        return [m.estimate_x(sel), m.estimate_ux(sel)], None
    if name == "isv_transform":
        return pool.models["isv"].transform(X), None
    if name == "iv_project":
        return pool.models["iv"].project(sel[0]), None
    if name == "iv_transform":
        return pool.models["iv"].transform(sel), None
    if name == "linear_scoring":
        v = o["np_seed"] % 3
        models = [pool.prior, pool.ubm] if v == 0 else (pool.model_means if v == 1
                                                         else pool.model_means[0])
        test = sel if len(sel) > 1 or o["flag"] else sel[0]
        ubm = pool.models["map"] if ("map" in pool.models and o["it"] == 2) else pool.ubm
        off = pool.offsets if o["uw"] else 0
        return linear_scoring(models, ubm, test, off, o["flag"]), None
    if name == "stats_add":
        fresh = GMMStats(case["c"], case["d"])
        out = fresh
        for s in sel:
            out = out + s
        return out, None
    if name == "stats_iadd":
        fresh = GMMStats(case["c"], case["d"])
        for s in sel:
            fresh += s
        return fresh, None
    if name == "stats_accumulate_recycled":
        # a long-lived accumulator: every batch's statistics are added in place, then the caller
        # recycles (overwrites) the batch's statistics object; the accumulator must keep the
        # sums it was given and never follow the operands afterwards
        acc = GMMStats(case["c"], case["d"])
        exp = [0, np.zeros(case["c"]), np.zeros((case["c"], case["d"])),
               np.zeros((case["c"], case["d"]))]
        Xs = np.asarray(X, float)
        for rep in range(o.get("reps", 3)):
            rows = [(rep * 3 + j) % len(Xs) for j in range(3)]
            s_ = pool.ubm.acc_stats(Xs[rows].copy())
            snap = (int(s_.t), np.array(s_.n), np.array(s_.sum_px), np.array(s_.sum_pxx))
            acc += s_
            for j in range(4):
                exp[j] = exp[j] + snap[j]
            s_.n[:] = 1e3
            s_.sum_px[:] = -1e6
            s_.sum_pxx[:] = 1e9
            got = (int(acc.t), np.asarray(acc.n), np.asarray(acc.sum_px), np.asarray(acc.sum_pxx))
            if got[0] != exp[0] or any(rel_diff(np.asarray(g, float), np.asarray(e, float),
                                                scale=1e-300) > 1e-9
                                       for g, e in zip(got[1:], exp[1:])):
                raise _ResultFollowsOperand(f"after in-place addition #{rep + 1}")
        rec.probe("long_lived_accumulator_with_recycled_operands", o.get("reps", 3) >= 16)
        return acc, None
    if name == "lin_transform":
        t = pool.models["lin"]
        r = t.transform(X)
        return r, None
    raise HarnessError(f"unknown op {name}")


class _ConcurrentDiffers(Exception):
    pass


class _ContainerMutated(Exception):
    pass


class _ResultFollowsOperand(Exception):
    pass


def _lin_fit(t, X, y, name):
    r = t.fit(X, y) if name == "wccn_fit" else t.fit(X)
    # Dask fits leave lazy attributes; the caller materialises them
    if hasattr(r.weights, "compute"):
        r.weights = r.weights.compute()
    if hasattr(r.input_subtract, "compute"):
        r.input_subtract = r.input_subtract.compute()
    return r


def random_chunks(n, k):
    base = n // k
    out = [base] * k
    for i in range(n - base * k):
        out[i] += 1
    return [x for x in out if x > 0]


def _scribble(pool, o):
    """Overwrite a caller buffer in place; returns a restore function."""
    t = o["target"]
    if t in ("X0", "X1", "init_c"):
        arr = getattr(pool, t)
    elif t == "y0":
        arr = pool.y0_arr
    elif t == "stat":
        s = pool.stats[o["idx"] % len(pool.stats)]
        saved = (s.n.copy(), s.sum_px.copy(), s.sum_pxx.copy())
        s.n *= 3.0
        s.sum_px += 1.5
        s.sum_pxx *= 0.5

        def restore():
            s.n[...], s.sum_px[...], s.sum_pxx[...] = saved
        return restore
    elif t.startswith("prior_"):
        arr = np.asarray(getattr(pool.prior, t[6:]))
    elif t == "ubm_means":
        arr = np.asarray(pool.ubm.means)
    else:
        raise HarnessError(t)
    saved = arr.copy()
    if arr.dtype.kind == "f":
        arr *= -2.5
        arr += 0.75
    else:
        arr[...] = arr[::-1].copy()

    def restore():
        arr[...] = saved
    return restore


def run_case(case, replay=None):
    rec = SimRec(replay)
    pool = Pool(case)
    base = pool.input_digests()
    results = {}
    n_train = n_use = 0
    for i, o in enumerate(case["ops"]):
        name = o["op"]
        if name == "scribble":
            if case.get("readonly"):
                continue  # the caller cannot write to these buffers either
            before_models = pool.param_digests()
            restore = _scribble(pool, o)
            rec.faults["F7_scribble_" + o["target"]] = rec.faults.get("F7_scribble_" + o["target"], 0) + 1
            after_models = pool.param_digests()
            for k in before_models:
                if before_models[k] != after_models[k]:
                    restore()
                    return Result.violation(
                        "model-follows-caller-buffer",
                        {"after_op": i, "scribbled": o["target"], "model": k}, **rec.fields())
            restore()
            now = pool.input_digests()
            if now != base:
                raise HarnessError("restore after scribble failed")
            continue
        if name == "repeat":
            j = o["of"]
            if j not in results:
                continue
            o2 = case["ops"][j]
            if results[j][2] != _used(pool, o2["op"]):
                continue  # a model it used has been retrained since
            try:
                with np.errstate(all="ignore"):
                    r, _m = _call(pool, o2, rec, f"op{i}")
            except HarnessError:
                raise
            except Exception as e:
                if is_harness_bug(e):
                    raise HarnessError(f"harness bug: {e!r}")
                # the first call succeeded with the same objects, so the caller's data or the
                # model it used must have changed in a way the second call noticed
                return Result.violation("repeat-call-differs", {"after_op": i, "repeat_of": j,
                                                                "op": o2["op"],
                                                                "exception": repr(e)[:300]},
                                        **rec.fields())
            rec.probe("repeat_compared")
            if res_digest(r) != results[j][0]:
                return Result.violation("repeat-call-differs", {"after_op": i, "repeat_of": j,
                                                                "op": o2["op"]}, **rec.fields())
            name = o2["op"]
        else:
            need = NEEDS.get(name)
            if need is not None and need not in pool.models:
                continue
            if name != "linear_scoring" and any(sl not in pool.models for sl in USES.get(name, [])):
                continue
            used_model_digest = _used(pool, name)
            models_before = pool.model_digests()
            try:
                with np.errstate(all="ignore"):
                    r, produced = _call(pool, o, rec, f"op{i}")
            except HarnessError:
                raise
            except _ContainerMutated as e:
                return Result.violation("caller-input-modified",
                                        {"after_op": i, "op": name, "what": str(e)}, **rec.fields())
            except _ResultFollowsOperand as e:
                return Result.violation("model-aliases-caller-buffer",
                                        {"after_op": i, "op": name, "what": str(e)}, **rec.fields())
            except _ConcurrentDiffers as e:
                return Result.violation("concurrent-call-differs-from-sequential",
                                        {"after_op": i, "call": str(e)}, **rec.fields())
            except Exception as e:
                if is_harness_bug(e):
                    raise HarnessError(f"harness bug in op {name}: {e!r}")
                if case.get("readonly") and "read-only" in repr(e):
                    return Result.violation("caller-input-written",
                                            {"after_op": i, "op": name,
                                             "exception": repr(e)[:200]}, **rec.fields())
                # C19 says nothing about a call being refused (that is C11/C13 territory);
                # but a refused call must still leave the caller's objects untouched (I1 below)
                rec.probe("call_raised_" + name)
                r, produced = None, None
            if r is None and produced is None:
                now = pool.input_digests()
                if now != base:
                    changed = sorted(k for k in base if base[k] != now[k])
                    return Result.violation("caller-input-modified",
                                            {"after_op": i, "op": name, "changed": changed,
                                             "note": "call raised or was skipped"}, **rec.fields())
                continue
            results[i] = (res_digest(r), name, used_model_digest)
            if name in TRAIN_OPS:
                n_train += 1
            else:
                n_use += 1
            # I1 for models the caller already owns (a use must not change the model it uses;
            # training a new model must not change the others)
            models_after = pool.model_digests()
            slot = PRODUCES.get(name)
            for k in models_before:
                if k != slot and models_before[k] != models_after[k]:
                    # enroll sets enroll_iterations on the machine: not part of the digest
                    return Result.violation("caller-model-modified",
                                            {"after_op": i, "op": name, "model": k}, **rec.fields())
            if slot is not None and produced is not None:
                pool.models[slot] = produced
        # I1: caller inputs unchanged
        now = pool.input_digests()
        if now != base:
            changed = sorted(k for k in base if base[k] != now[k])
            return Result.violation("caller-input-modified",
                                    {"after_op": i, "op": name, "changed": changed,
                                     "backend": case["ops"][i].get("backend"),
                                     "mode": (case["ops"][i].get("sched") or {}).get("mode")},
                                    **rec.fields())
        # I3 structural: no model array shares memory with a caller array
        for k, mobj in pool.models.items():
            for ma in model_arrays(mobj):
                for nm, pa in pool.arrays():
                    if isinstance(ma, np.ndarray) and isinstance(pa, np.ndarray) and \
                            ma.size and pa.size and np.shares_memory(ma, pa):
                        return Result.violation("model-aliases-caller-buffer",
                                                {"after_op": i, "op": name, "model": k,
                                                 "buffer": nm}, **rec.fields())
    rec.note(sorted(pool.model_digests().items()))
    f = rec.fields()
    f["nontrivial"] = n_train >= 1 and n_use >= 1
    f["tasks"] = f["tasks"] + len(case["ops"])
    return Result.ok(**f)


def signature(case, clause):
    return "history"


def shrink(case):
    ops = case["ops"]
    n = len(ops)

    def fix_repeats(new_ops, removed):
        out = []
        for o in new_ops:
            if o["op"] == "repeat":
                j = o["of"]
                if j in removed:
                    continue
                shift = sum(1 for r in removed if r < j)
                o = dict(o, of=j - shift)
            out.append(o)
        return out

    if n > 2:
        for lo, hi in ((n // 2, n), (0, n // 2)):
            removed = set(range(lo, hi))
            yield dict(case, ops=fix_repeats([o for i, o in enumerate(ops) if i not in removed], removed))
    for i in range(n - 1, -1, -1):
        yield dict(case, ops=fix_repeats(ops[:i] + ops[i + 1:], {i}))
    for i, o in enumerate(ops):
        if o.get("backend") in ("da", "bag"):
            o2 = {k: v for k, v in o.items() if k not in ("sched", "chunks_frac", "npart")}
            o2["backend"] = "np"
            yield dict(case, ops=ops[:i] + [o2] + ops[i + 1:])
            if o["sched"]["mode"] != "shared" or o["sched"]["policy"] != "fifo":
                yield dict(case, ops=ops[:i] + [dict(o, sched=dict(o["sched"], mode="shared",
                                                                   policy="fifo"))] + ops[i + 1:])
        if o.get("it", 1) > 1:
            yield dict(case, ops=ops[:i] + [dict(o, it=1)] + ops[i + 1:])
        if len(o.get("sel", [])) > 1:
            yield dict(case, ops=ops[:i] + [dict(o, sel=o["sel"][:-1])] + ops[i + 1:])
