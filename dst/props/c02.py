"""C02 — GMM statistics are responsibility-weighted moments, additive over any split.

Simulated system: a map-reduce over the real GMMMachine.acc_stats / transform.  Rows are
dealt to "workers" (blocks), each block's statistics are accumulated by the real E-step
(NumPy block, or Dask block whose lazy fields are computed under SimScheduler), partial
GMMStats travel shared or copied, and a seeded merge schedule combines them with
+, reversed +, += and functools.reduce(operator.iadd) (DESIGN.md §5.1).
"""
import copy as _copy
import functools
import operator

import cloudpickle
import dask
import dask.array as da
import numpy as np

from ..refmodel import ref_stats
from ..sim import gen_sched, HarnessError
from ..util import A, L, Result, sig6, digest, compositions, random_composition, is_harness_bug
from .common import SimRec, gen_data, gen_simplex, trim, tail

ID = "C02"
CHUNK = 25
BUDGET = {"quick": 50, "thorough": 600}
MAX_RUNS = {"quick": 8000, "thorough": 1000000}
TOL = 1e-9

RULE = (
    "One run = one (GMM with scalar/vector/matrix variance floors, data set of 1..260 rows incl. "
    "far-tail rows, float32-representable / Fortran / strided inputs, assignment of rows to "
    "1..n blocks (consecutive composition or arbitrary; empty blocks; a single sample as a 1-D "
    "vector), per-block backend NumPy or Dask with its own row chunking, per-block transfer "
    "shared or cloudpickle-copied, seeded merge schedule over {a+b, b+a, a+=b, reduce(iadd)}, "
    "eager or lazy merging of Dask-backed statistics, executor model/policy for every Dask "
    "compute). Invariants after every merge step (count conservation, responsibilities >= 0 and "
    "summing to the count, operands of + untouched and not aliased, += returns its left operand); "
    "the merged result is compared with whole-set accumulation and with an independent "
    "longdouble reference model; the repository's own trainer reduction (gmm.m_step on the list "
    "of block statistics) is compared with the same M-step on whole-set statistics; incompatible "
    "shapes must be refused without side effects. Fixed cases: all 2^(n-1) compositions for n<=6 "
    "(thorough n<=8) x 3 merge schedules. Non-trivial = more than one block; distinct = distinct "
    "(case digest, event-log + result digest)."
)
ASSUMPTIONS = [
    "reference model: independent numpy.longdouble computation from the machine's visible "
    "weights/means/variances (dst/refmodel.py)",
    "tolerance 1e-9 relative to (t, t*scale, t*scale^2, |ll|) for n, sum_px, sum_pxx, "
    "log-likelihood; t must match exactly",
    "SimScheduler executes the lazy dask.array graphs of Dask-backed statistics",
]
COMPONENTS = {
    "real": ["bob.learn.em.gmm (GMMMachine.acc_stats / transform / e_step, GMMStats + / +=)",
             "dask.array graphs of lazy statistics", "cloudpickle"],
    "stub": ["Dask scheduler (SimScheduler)", "workers/reducer of the map-reduce (harness)"],
}


def setup():
    pass


def _rejected_call(acc, how, m, cc, dd, rec):
    """A call the library refuses; returns False if it was (unexpectedly) accepted, in which
    case nothing is asserted about the accumulator afterwards."""
    import os
    import tempfile
    from bob.learn.em import GMMStats
    tmp = None
    try:
        if how == "load_missing_file":
            acc.load("/nonexistent-dir/verif-c02-missing.hdf5")
        elif how == "load_machine_file":
            fd, tmp = tempfile.mkstemp(prefix="verif-c02-", suffix=".hdf5")
            os.close(fd)
            import h5py
            with h5py.File(tmp, "w") as f:
                m.save(f)
            acc.load(tmp)
        elif how == "iadd_wrong_shape":
            other = GMMStats(cc + 1, dd)
            other.t = 3
            other.n = other.n + 1.0
            acc += other
        else:
            acc += 1.5
    except Exception as _e:
        if is_harness_bug(_e):
            raise HarnessError(f"harness bug: {_e!r}")
        rec.probe("rejected_call_on_accumulator_" + how)
        rec.faults["F10_rejected_call"] = rec.faults.get("F10_rejected_call", 0) + 1
        return True
    finally:
        if tmp is not None:
            import gc
            gc.collect()
            os.unlink(tmp)
    rec.probe("invalid_call_on_accumulator_accepted_" + how)
    return False


# ---------------------------------------------------------------------------
def _gen_machine(rng, X, c):
    n, d = X.shape
    rs = np.random.RandomState(rng.getrandbits(32))
    spread = X.std(axis=0) + 1e-3 * (np.abs(X).max(axis=0) + 1e-12)
    means = X[rs.choice(n, size=c)] + rs.randn(c, d) * 0.3 * spread
    variances = spread ** 2 * rs.uniform(0.3, 3.0, size=(c, d))
    r = rng.random()
    if r < 0.4:
        floor = None
    elif r < 0.6:
        floor = float(sig6(rng.choice([1e-3, 0.5, 2.0]) * float(np.mean(spread ** 2))))
    elif r < 0.8:
        floor = L(sig6(spread ** 2 * rs.uniform(0.1, 2.0, size=d)))
    else:
        floor = L(sig6(spread ** 2 * rs.uniform(0.1, 2.0, size=(c, d))))
    w = gen_simplex(rng, c)
    if rng.random() < 0.2:  # positive weights that do not sum to one are accepted by the machine
        w = sig6(w * rng.uniform(0.3, 3.0))
    if c >= 2 and rng.random() < 0.1:
        # extremely unbalanced mixtures: a component that training has (all but) switched off
        w = np.array(w)
        for j in rng.sample(range(c), rng.randint(1, c - 1)):
            w[j] = rng.choice([1e-6, 1e-12, 1e-19, 1e-40, 1e-300, 0.0])
    out = {"c": c, "means": L(sig6(means)), "variances": L(sig6(variances)),
           "weights": L(w), "floor": floor,
           "um": rng.random() < 0.7, "uv": rng.random() < 0.4, "uw": rng.random() < 0.4}
    if rng.random() < 0.2:
        out["mkind"] = {"prior_weights": L(gen_simplex(rng, c)), "shift": rng.choice([0.0, 0.5, 2.0]),
                        "vscale": rng.choice([0.5, 1.0, 3.0]),
                        "um": rng.random() < 0.7, "uv": rng.random() < 0.3, "uw": rng.random() < 0.3,
                        "weights_in_constructor": rng.random() < 0.5}
    return out


def _gen_merge(rng, nb):
    """Seeded merge schedule: list of steps over a shrinking pool."""
    steps = []
    size = nb
    while size > 1:
        if rng.random() < 0.15:
            steps.append(["reduce_iadd"])
            size = 1
            break
        i, j = sorted(rng.sample(range(size), 2))
        steps.append([rng.choice(["add", "radd", "iadd"]), i, j])
        size -= 1
    return steps


def gen_case(rng, tier, n=None, blocks=None, merge=None):
    n = n or rng.choice([1, 2, 3, 4, 5, 6, 8, 10, 15, 20, 30, 40, 17, 33, 65, 70, 129, 140, 260])
    d = tail(rng, 1, 4, [9, 17, 33, 65], 0.04)
    X = gen_data(rng, n, d)
    if rng.random() < 0.2:  # far-tail rows: tens to thousands of standard deviations away
        sd = X.std(axis=0) + 1e-3 * (np.abs(X).max(axis=0) + 1e-12)
        for _ in range(rng.randint(1, 2)):
            X[rng.randrange(n)] += rng.choice([30, 300, 3000]) * sd * rng.choice([-1, 1])
        X = sig6(X)
    c = tail(rng, 1, 4, [9, 17, 33, 65, 129], 0.04)
    gmm = _gen_machine(rng, X, c)
    special = []
    if rng.random() < 0.08:
        # samples that coincide exactly with a mean
        mm = A(gmm["means"])
        for _ in range(rng.randint(1, 3)):
            X[rng.randrange(n)] = mm[rng.randrange(c)]
        special.append("sample_equals_mean")
    if c >= 2 and rng.random() < 0.08:
        # two identical components: exactly equal likelihoods, exactly tied responsibilities
        mm, vv, ww = A(gmm["means"]), A(gmm["variances"]), A(gmm["weights"])
        a, b = rng.sample(range(c), 2)
        mm[b], vv[b] = mm[a], vv[a]
        if rng.random() < 0.5:
            ww[b] = ww[a]
        if isinstance(gmm["floor"], list) and np.ndim(gmm["floor"]) == 2:
            fl = A(gmm["floor"])
            fl[b] = fl[a]
            gmm["floor"] = L(fl)
        if not (ww > 0).any():
            ww[a] = 1.0  # (a mixture has at least one component with a positive weight)
        gmm.update(means=L(mm), variances=L(vv), weights=L(ww))
        special.append("twin_components")
    if rng.random() < 0.06:
        # quantised samples (sensor counts): many exactly equal values and rows
        sd = X.std(axis=0) + 1e-3 * (np.abs(X).max(axis=0) + 1e-12)
        q = 2.0 ** np.round(np.log2(sd * rng.choice([0.25, 0.5, 1.0])))
        X = np.round(X / q) * q
        special.append("quantised_samples")
    if blocks is None:
        if rng.random() < 0.5:
            comp = random_composition(rng, n, rng.randint(1, n))
            idx, blocks = 0, []
            for sz in comp:
                blocks.append(list(range(idx, idx + sz)))
                idx += sz
        else:
            nb = rng.randint(1, n)
            perm = list(range(n))
            rng.shuffle(perm)
            cuts = sorted(rng.sample(range(1, n), nb - 1)) if nb > 1 else []
            blocks = [perm[a:b] for a, b in zip([0] + cuts, cuts + [n])]
    if rng.random() < 0.2:
        # "segments without frames": empty blocks are part of a valid partition of the rows
        for _ in range(rng.randint(1, 2)):
            blocks.insert(rng.randint(0, len(blocks)), [])
    nb = len(blocks)
    backends = []
    for b in blocks:
        if len(b) == 0:
            backends.append({"type": "np"})
        elif rng.random() < ((0.3 if n <= 40 else 0.02) if c <= 8 else 0.03):
            backends.append({"type": "da", "chunks": random_composition(rng, len(b))})
        elif len(b) == 1 and rng.random() < 0.3:
            backends.append({"type": "np1d"})
        else:
            backends.append({"type": "np"})
    lazy = rng.random() < 0.3 and all(len(b) > 0 for b in blocks) and n <= 40 and c <= 8
    if lazy:
        # lazily merged statistics must all be Dask-backed: adding an uncomputed Dask-backed
        # container into a NumPy-backed one in place is refused by dask itself (ufunc out=)
        # and is not a way of "adding statistics of a partition" the property speaks about
        backends = [be if be["type"] == "da" else
                    {"type": "da", "chunks": random_composition(rng, len(b))}
                    for b, be in zip(blocks, backends)]
    return {
        "kind": "mapreduce", "special": special,
        "gmm": gmm, "X": L(X), "blocks": blocks, "backends": backends,
        "entry": rng.choice(["acc_stats", "acc_stats", "transform"]),
        "transfer": [rng.choice(["shared", "shared", "copied", "copied", "relaid"] +
                                (["reloaded", "reloaded_into_other_shape"] if nb <= 8 else []))
                     for _ in range(nb)],
        "merge": merge if merge is not None else _gen_merge(rng, nb),
        "lazy": lazy,
        "acc_how": rng.choice(["fresh", "reset", "resize", "init_fields"]),
        "acc_reject": rng.choice([None] * 5 + ["load_missing_file", "load_machine_file",
                                               "iadd_wrong_shape", "add_non_statistics"]),
        "acc_reject_at": rng.randint(0, 64),
        "xform": rng.choice([None, None, None, None, "fortran", "strided", "float32"]),
        "sched": gen_sched(rng),
    }


def fixed_cases(tier):
    import random

    out = []
    nmax = 8 if tier == "thorough" else 6
    for n in range(1, nmax + 1):
        base = gen_case(random.Random(f"fixed02/{n}"), "quick", n=n, blocks=[list(range(n))])
        for comp in compositions(n):
            idx, blocks = 0, []
            for sz in comp:
                blocks.append(list(range(idx, idx + sz)))
                idx += sz
            nb = len(blocks)
            for kind in ("tree", "reduce", "left"):
                rng = random.Random(f"fixed02/{n}/{comp}/{kind}")
                if kind == "tree":
                    merge = _gen_merge(rng, nb)
                elif kind == "reduce":
                    merge = [["reduce_iadd"]] if nb > 1 else []
                else:
                    merge = [["add", 0, 1] for _ in range(nb - 1)]
                lazy = rng.random() < 0.25
                cs = dict(base, blocks=blocks, merge=merge, lazy=lazy,
                          backends=[{"type": "np"} if (rng.random() < 0.7 and not lazy) else
                                    {"type": "da", "chunks": random_composition(rng, len(b))}
                                    for b in blocks],
                          transfer=[rng.choice(["shared", "copied"]) for _ in blocks])
                out.append(cs)
    return out


def exhaustive_note(tier):
    nmax = 8 if tier == "thorough" else 6
    return (f"all 2^(n-1) consecutive compositions for n=1..{nmax} x 3 merge schedules "
            "(random tree, reduce(iadd), left fold with +); exhaustive in that dimension only")


def sample_view(case):
    return trim(case)


# ---------------------------------------------------------------------------
def _mk(g):
    from bob.learn.em import GMMMachine

    mk = g.get("mkind")
    if mk:
        # an adapted (MAP) machine computes its statistics from its OWN visible parameters,
        # whatever its prior holds and whichever update switches are on
        prior = GMMMachine(g["c"])
        prior.weights = A(mk["prior_weights"])
        prior.means = A(g["means"]) + mk["shift"] * np.sqrt(A(g["variances"]))
        prior.variances = A(g["variances"]) * mk["vscale"]
        kw = dict(trainer="map", ubm=prior, update_means=mk["um"], update_variances=mk["uv"],
                  update_weights=mk["uw"])
        if mk["weights_in_constructor"]:
            m = GMMMachine(g["c"], weights=A(g["weights"]), **kw)
        else:
            m = GMMMachine(g["c"], **kw)
            m.weights = A(g["weights"])
    else:
        m = GMMMachine(g["c"], update_means=g.get("um", True), update_variances=g.get("uv", False),
                       update_weights=g.get("uw", False))
        m.weights = A(g["weights"])
    m.means = A(g["means"])
    if g["floor"] is not None:
        m.variance_thresholds = A(g["floor"]) if isinstance(g["floor"], list) else g["floor"]
    m.variances = A(g["variances"])
    return m


FIELDS = ("n", "sum_px", "sum_pxx")


def _is_lazy(st):
    return any(hasattr(getattr(st, f), "compute") for f in FIELDS) or \
        hasattr(st.log_likelihood, "compute") or hasattr(st.t, "compute")


def _concrete(st):
    """Snapshot (t, n, sum_px, sum_pxx, ll) as NumPy, computing lazy fields."""
    vals = dask.compute(st.t, st.n, st.sum_px, st.sum_pxx, st.log_likelihood)
    return (int(vals[0]), np.array(vals[1], dtype=float), np.array(vals[2], dtype=float),
            np.array(vals[3], dtype=float), float(vals[4]))


def _snap_digest(st):
    return digest(int(st.t), np.asarray(st.n), np.asarray(st.sum_px), np.asarray(st.sum_pxx),
                  float(st.log_likelihood), st.n_gaussians, st.n_features)


def _close(a, b, t, s):
    """Compare two concrete snapshots; returns (field, err, bound) or None."""
    if a[0] != b[0]:
        return ("t", abs(a[0] - b[0]), 0)
    t = max(t, 1)
    bounds = (TOL * t, TOL * t * s, TOL * t * s * s)
    for name, x, y, bnd in zip(FIELDS, a[1:4], b[1:4], bounds):
        x = np.asarray(x, dtype=np.longdouble)
        y = np.asarray(y, dtype=np.longdouble)
        if x.shape != y.shape:
            return (name, float("inf"), bnd)
        if not (np.isfinite(x).all() and np.isfinite(y).all()):
            return (name, float("nan"), bnd)
        err = float(np.max(np.abs(x - y))) if x.size else 0.0
        if err > bnd:
            return (name, err, bnd)
    la, lb = np.longdouble(a[4]), np.longdouble(b[4])
    if not (np.isfinite(la) and np.isfinite(lb)):
        return ("log_likelihood", float("nan"), 0)
    bnd = TOL * max(float(abs(la)), float(abs(lb)), t)
    if float(abs(la - lb)) > bnd:
        return ("log_likelihood", float(abs(la - lb)), bnd)
    return None


def run_case(case, replay=None):
    from bob.learn.em import GMMStats

    rec = SimRec(replay)
    X = A(case["X"])
    if case.get("xform") == "float32":
        X = X.astype(np.float32).astype(float)  # values exactly representable in float32
    n_rows, d = X.shape
    s = float(np.abs(X).max()) or 1.0
    g = case["gmm"]
    m = _mk(g)
    blocks = case["blocks"]
    nb = len(blocks)
    sched = case["sched"]
    rec.probe("multi_block", nb > 1)
    rec.probe("single_row_block", any(len(b) == 1 for b in blocks) and nb > 1)
    rec.probe("non_consecutive_assignment",
              [i for b in blocks for i in b] != list(range(n_rows)))
    rec.probe("variance_floor_clamped",
              bool((np.asarray(m.variances) != A(g["variances"])).any()))
    rec.probe("dask_block", any(b["type"] == "da" for b in case["backends"]))
    rec.probe("empty_block", any(len(b) == 0 for b in blocks))

    vis = (np.array(m.weights, float), np.array(m.means, float), np.array(m.variances, float))
    fl = m.variance_thresholds
    if (vis[2] < np.asarray(fl) - 0).any():
        return Result.violation("variance-below-floor", {"floor": L(fl), "variances": L(vis[2])},
                                **rec.fields())

    # ---------------- map: per-block statistics ----------------
    def map_blocks():
        parts = []
        inputs = []
        for b, be in zip(blocks, case["backends"]):
            xb = X[b].copy() if len(b) else np.zeros((0, d))
            xf = case.get("xform")
            if xf == "fortran":
                xb = np.asfortranarray(xb)
            elif xf == "strided" and len(b):
                big = np.zeros((xb.shape[0] * 2, d + 1))
                big[::2, :-1] = xb
                xb = big[::2, :-1]
            if case.get("xform") == "float32":
                xb = xb.astype(np.float32)
            if be["type"] == "da":
                xin = da.from_array(xb, chunks=(tuple(be["chunks"]), (d,)))
            elif be["type"] == "np1d":
                xin = xb[0]
            else:
                xin = xb
            inputs.append(xin)
        if case["entry"] == "transform":
            parts = list(m.transform(inputs))
        else:
            parts = [m.acc_stats(x) for x in inputs]
        return parts

    try:
        with np.errstate(all="ignore"):
            parts = rec.run(sched, map_blocks, label="map")
    except HarnessError:
        raise
    except Exception as e:
        if is_harness_bug(e):
            raise HarnessError(f"harness bug: {e!r}")
        return Result.violation("accumulate-raises", {"exception": repr(e)[:300]}, **rec.fields())
    if len(parts) != nb:
        return Result.violation("transform-length", {"got": len(parts), "want": nb}, **rec.fields())

    lazy = case["lazy"]
    rows = [len(b) for b in blocks]
    pool = []
    for i, st in enumerate(parts):
        if _is_lazy(st) and not lazy:
            t, n, px, pxx, ll = rec.run(sched, lambda st=st: _concrete(st), label=f"c{i}")
            st2 = GMMStats(st.n_gaussians, st.n_features)
            st2.t, st2.n, st2.sum_px, st2.sum_pxx, st2.log_likelihood = t, n, px, pxx, ll
            st = st2
        if case["transfer"][i] == "copied":
            st = cloudpickle.loads(cloudpickle.dumps(st))
            rec.faults["F3_input_copies"] += 1
        elif case["transfer"][i] in ("reloaded", "reloaded_into_other_shape") and not _is_lazy(st):
            # the partial was written to disk by the worker that computed it and read back by
            # the one that merges - into a new object, or into a recycled container of
            # another shape
            import os
            import tempfile
            fd, tmpf = tempfile.mkstemp(prefix="verif-c02-", suffix=".hdf5")
            os.close(fd)
            try:
                import h5py
                with h5py.File(tmpf, "w") as f:
                    st.save(f)
                if case["transfer"][i] == "reloaded":
                    st = GMMStats.from_hdf5(tmpf)
                else:
                    tgt = GMMStats(st.n_gaussians + 1, st.n_features + 2)
                    tgt.n = tgt.n + 5.0
                    tgt.load(tmpf)
                    st = tgt
            finally:
                import gc
                gc.collect()
                os.unlink(tmpf)
            rec.probe("partial_reloaded_from_disk")
        elif case["transfer"][i] == "relaid" and not _is_lazy(st):
            # the partial's arrays were re-assembled by the caller in another memory layout
            st = _copy.deepcopy(st)
            st.sum_px = np.asfortranarray(np.asarray(st.sum_px))
            big = np.zeros(tuple(2 * k for k in np.shape(st.sum_pxx)))
            big[::2, ::2] = np.asarray(st.sum_pxx)
            st.sum_pxx = big[::2, ::2]
            rec.probe("partial_with_non_contiguous_arrays")
        pool.append(st)
    if any(_is_lazy(st) for st in pool):
        rec.probe("lazy_merge")
    for sp in case.get("special", []):
        rec.probe("special_" + sp)
    rec.probe("statistics_from_a_map_machine", bool(case["gmm"].get("mkind")))
    rec.probe("component_weight_below_machine_epsilon",
              bool((np.asarray(case["gmm"]["weights"]) < 2e-16).any()))

    # per-block invariants on concrete partials
    def inv(st, want_rows, where):
        if _is_lazy(st):
            return None
        if int(st.t) != want_rows:
            return Result.violation("count", {"where": where, "t": int(st.t), "rows": want_rows})
        nn = np.asarray(st.n, dtype=float)
        if not np.isfinite(nn).all() or (nn < -1e-12).any():
            return Result.violation("responsibility-negative", {"where": where, "n": L(nn)})
        if abs(float(nn.sum()) - want_rows) > 1e-9 * max(want_rows, 1):
            return Result.violation("responsibilities-do-not-sum-to-count",
                                    {"where": where, "sum_n": float(nn.sum()), "t": want_rows})
        return None

    for i, st in enumerate(pool):
        v = inv(st, rows[i], f"block{i}")
        if v is not None:
            v.update(rec.fields())
            return v

    # ---------------- the repository's own reduction (what every parallel trainer runs) ----
    repo_red = None
    if not any(_is_lazy(st) for st in pool):
        try:
            from bob.learn.em import gmm as _gmm_mod
            _ms = _gmm_mod.m_step
        except Exception as _e:
            if is_harness_bug(_e):
                raise HarnessError(f"harness bug: {_e!r}")
            _ms = None
            rec.probe("repo_reduction_unavailable")
        if _ms is not None:
            mm = _copy.deepcopy(m)
            mm.update_means = mm.update_variances = mm.update_weights = True
            try:
                with np.errstate(all="ignore"):
                    out_m, avg = _ms([_copy.deepcopy(st) for st in pool], mm)
                repo_red = (np.array(out_m.weights, float), np.array(out_m.means, float),
                            np.array(out_m.variances, float), float(avg))
            except HarnessError:
                raise
            except Exception as e:
                if is_harness_bug(e):
                    raise HarnessError(f"harness bug: {e!r}")
                return Result.violation("repo-reduction-raises", {"exception": repr(e)[:300],
                                                                  "blocks": len(pool)}, **rec.fields())
            rec.probe("repo_reduction_checked")
            rec.probe("repo_reduction_odd_block_count", nb % 2 == 1 and nb > 1)

    # ---------------- accumulation into a fresh / reset / resized container ----------------
    if not any(_is_lazy(st) for st in pool):
        how = case.get("acc_how", "fresh")
        cc, dd = pool[0].n_gaussians, pool[0].n_features
        try:
            if how == "fresh":
                acc = GMMStats(cc, dd)
            elif how == "reset":
                acc = _copy.deepcopy(pool[0])
                acc.reset()
            elif how == "resize":
                acc = GMMStats(cc + 1, dd + 2)
                acc.n = acc.n + 3.0
                acc.resize(cc, dd)
            else:  # init_fields without arguments
                acc = _copy.deepcopy(pool[-1])
                acc.init_fields()
            rej, rej_ok = case.get("acc_reject"), True
            rej_at = case.get("acc_reject_at", 0) % len(pool)
            for j, st in enumerate(pool):
                acc += _copy.deepcopy(st)
                if rej and j == rej_at:
                    # the caller makes a call on the accumulator that is refused, catches the
                    # exception and goes on accumulating
                    rej_ok = _rejected_call(acc, rej, m, cc, dd, rec)
            acc_snap = _concrete(acc) if rej_ok else None
        except HarnessError:
            raise
        except Exception as e:
            if is_harness_bug(e):
                raise HarnessError(f"harness bug: {e!r}")
            return Result.violation("merge-raises", {"step": "accumulator:" + how,
                                                     "exception": repr(e)[:300]}, **rec.fields())
        rec.probe("accumulator_" + how)
    else:
        acc_snap = None

    # ---------------- reduce: seeded merge schedule ----------------
    rowc = list(rows)
    for step_no, step in enumerate(case["merge"]):
        try:
            if step[0] == "reduce_iadd":
                before = [None if _is_lazy(x) else _snap_digest(x) for x in pool[1:]]
                first = pool[0]
                res = functools.reduce(operator.iadd, pool)
                if res is not first:
                    return Result.violation("iadd-identity", {"step": step_no}, **rec.fields())
                for x, bd in zip(pool[1:], before):
                    if bd is not None and not _is_lazy(x) and _snap_digest(x) != bd:
                        return Result.violation("operand-mutated", {"step": step_no, "op": "reduce_iadd"},
                                                **rec.fields())
                pool = [res]
                rowc = [sum(rowc)]
                rec.faults["F8_reduce_iadd"] = rec.faults.get("F8_reduce_iadd", 0) + 1
            else:
                op, i, j = step
                a, b = pool[i], pool[j]
                da_, db_ = (None if _is_lazy(a) else _snap_digest(a),
                            None if _is_lazy(b) else _snap_digest(b))
                if op == "add":
                    res = a + b
                elif op == "radd":
                    res = b + a
                else:
                    res = operator.iadd(a, b)
                    if res is not a:
                        return Result.violation("iadd-identity", {"step": step_no}, **rec.fields())
                rec.faults["F8_" + op] = rec.faults.get("F8_" + op, 0) + 1
                if op in ("add", "radd"):
                    if res is a or res is b:
                        return Result.violation("add-aliases-operand", {"step": step_no}, **rec.fields())
                    if da_ is not None and not _is_lazy(a) and _snap_digest(a) != da_:
                        return Result.violation("operand-mutated", {"step": step_no, "op": op},
                                                **rec.fields())
                if db_ is not None and not _is_lazy(b) and _snap_digest(b) != db_:
                    return Result.violation("operand-mutated", {"step": step_no, "op": op},
                                            **rec.fields())
                rc = rowc[i] + rowc[j]
                pool = [x for k, x in enumerate(pool) if k not in (i, j)] + [res]
                rowc = [x for k, x in enumerate(rowc) if k not in (i, j)] + [rc]
        except HarnessError:
            raise
        except Exception as e:
            if is_harness_bug(e):
                raise HarnessError(f"harness bug: {e!r}")
            return Result.violation("merge-raises", {"step": step_no, "op": step[0],
                                                     "exception": repr(e)[:300]}, **rec.fields())
        v = inv(pool[-1], rowc[-1], f"merge{step_no}")
        if v is not None:
            v.update(rec.fields())
            return v
    if len(pool) != 1:
        raise HarnessError("merge schedule did not reduce the pool to one element")
    merged_obj = pool[0]
    try:
        with np.errstate(all="ignore"):
            merged = rec.run(sched, lambda: _concrete(merged_obj), label="final")
    except HarnessError:
        raise
    except Exception as e:
        if is_harness_bug(e):
            raise HarnessError(f"harness bug: {e!r}")
        return Result.violation("merge-raises", {"step": "final-compute", "exception": repr(e)[:300]},
                                **rec.fields())
    rec.note(list(merged))

    # ---------------- oracles ----------------
    order = [i for b in blocks for i in b]
    with np.errstate(all="ignore"):
        whole_st = m.acc_stats(X)
        whole = _concrete(whole_st)
        ref = ref_stats(vis[0], vis[1], vis[2], X)
    refc = (ref["t"], ref["n"], ref["sum_px"], ref["sum_pxx"], ref["log_likelihood"])
    if not all(np.isfinite(np.asarray(x, dtype=float)).all() for x in refc[1:]):
        return Result.skip("nonfinite-reference", **rec.fields())
    bad = _close(whole, refc, n_rows, s)
    if bad is not None:
        return Result.violation("whole-vs-reference-model",
                                {"field": bad[0], "err": bad[1], "bound": bad[2]}, **rec.fields())
    if acc_snap is not None:
        bad = _close(acc_snap, whole, n_rows, s)
        if bad is not None:
            return Result.violation("accumulator-vs-whole",
                                    {"field": bad[0], "err": bad[1], "bound": bad[2],
                                     "accumulator": case.get("acc_how", "fresh")}, **rec.fields())
    bad = _close(merged, whole, n_rows, s)
    if bad is not None:
        return Result.violation("split-and-add-vs-whole",
                                {"field": bad[0], "err": bad[1], "bound": bad[2], "blocks": blocks,
                                 "merge": case["merge"]}, **rec.fields())
    if repo_red is not None:
        from bob.learn.em import gmm as _gmm_mod
        mm = _copy.deepcopy(m)
        mm.update_means = mm.update_variances = mm.update_weights = True
        with np.errstate(all="ignore"):
            ref_m, ref_avg = _gmm_mod.m_step([_copy.deepcopy(whole_st)], mm)
        pairs = (("weights", repo_red[0], np.array(ref_m.weights, float), 1.0),
                 ("means", repo_red[1], np.array(ref_m.means, float), s),
                 ("variances", repo_red[2], np.array(ref_m.variances, float), s * s),
                 ("average_log_likelihood", np.array(repo_red[3]), np.array(float(ref_avg)),
                  max(abs(float(ref_avg)), 1.0)))
        for name, a, b, sc in pairs:
            from ..util import rel_diff as _rd
            dv = _rd(a, b, scale=sc)
            if dv > 1e-8:
                return Result.violation("trainer-reduction-vs-whole",
                                        {"observable": name, "rel_diff": dv, "n_blocks": nb,
                                         "rows_per_block": rows}, **rec.fields())
    nn = merged[1]
    if (nn < -1e-12).any() or abs(float(nn.sum()) - n_rows) > 1e-9 * n_rows:
        return Result.violation("responsibilities-do-not-sum-to-count",
                                {"where": "final", "sum_n": float(nn.sum()), "t": n_rows},
                                **rec.fields())

    # incompatible shapes are refused, operands untouched
    good = whole_st
    c, dd = good.n_gaussians, good.n_features
    for shp in ((c + 1, dd), (c, dd + 1)):
        other = GMMStats(*shp)
        other.t = 3
        other.n = other.n + 1.0
        for opname in ("add", "radd", "iadd", "riadd"):
            dg, do = _snap_digest(good), _snap_digest(other)
            try:
                if opname == "add":
                    good + other
                elif opname == "radd":
                    other + good
                elif opname == "iadd":
                    operator.iadd(good, other)
                else:
                    operator.iadd(other, good)
                raised = None
            except ValueError:
                raised = "ValueError"
            except Exception as e:
                if is_harness_bug(e):
                    raise HarnessError(f"harness bug: {e!r}")
                raised = repr(e)[:200]
            if raised != "ValueError":
                return Result.violation("incompatible-shapes-not-refused",
                                        {"op": opname, "shapes": [[c, dd], list(shp)],
                                         "raised": raised}, **rec.fields())
            if _snap_digest(good) != dg or _snap_digest(other) != do:
                return Result.violation("incompatible-add-mutated-operand",
                                        {"op": opname, "shapes": [[c, dd], list(shp)]},
                                        **rec.fields())
    f = rec.fields()
    f["nontrivial"] = nb > 1
    return Result.ok(**f)


def signature(case, clause):
    return "mapreduce"


def shrink(case):
    sc = case["sched"]
    if sc["mode"] != "shared" or sc["policy"] != "fifo":
        yield dict(case, sched=dict(sc, mode="shared", policy="fifo"))
    if case["lazy"]:
        yield dict(case, lazy=False)
    if any(b["type"] != "np" for b in case["backends"]):
        yield dict(case, backends=[{"type": "np"} for _ in case["backends"]], lazy=False)
    if any(t != "shared" for t in case["transfer"]):
        yield dict(case, transfer=["shared"] * len(case["transfer"]))
    if case["entry"] != "acc_stats":
        yield dict(case, entry="acc_stats")
    nb = len(case["blocks"])
    if nb > 1:
        # merge the last two blocks
        b = case["blocks"]
        nb2 = nb - 1
        yield dict(case, blocks=b[:-2] + [b[-2] + b[-1]], backends=case["backends"][:-1],
                   transfer=case["transfer"][:-1],
                   merge=[["add", 0, 1] for _ in range(nb2 - 1)])
        if case["merge"] != [["add", 0, 1] for _ in range(nb - 1)]:
            yield dict(case, merge=[["add", 0, 1] for _ in range(nb - 1)])
        if case["merge"] != [["reduce_iadd"]]:
            yield dict(case, merge=[["reduce_iadd"]])
    # drop a row
    n = len(case["X"])
    if n > 1:
        for i in range(n - 1, -1, -1):
            blocks = [[(r if r < i else r - 1) for r in b if r != i] for b in case["blocks"]]
            if sum(len(b) == 0 for b in blocks) > sum(len(b) == 0 for b in case["blocks"]):
                continue
            backends = [{"type": "np"} for be in case["backends"]]
            yield dict(case, X=case["X"][:i] + case["X"][i + 1:], blocks=blocks,
                       backends=backends, lazy=False)
    g = case["gmm"]
    if g["floor"] is not None:
        yield dict(case, gmm=dict(g, floor=None))
