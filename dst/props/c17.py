"""C17 — a GMM's likelihood reflects its current visible parameters, whatever its history.

Simulated system: one GMMMachine driven through a seeded history of public operations
(setters in any order, floors raised and lowered, single EM steps on NumPy or on Dask
input under a simulated executor, and restart events: deepcopy, pickle, HDF5 save ->
from_hdf5 / load into another object).  After every operation the live machine is compared
with a freshly built machine given the same visible parameters (DESIGN.md §5.5).
"""
import copy
import os
import pickle
import tempfile

import dask.array as da
import h5py
import numpy as np

from ..sim import gen_sched, HarnessError
from ..util import A, L, Result, sig6, rel_diff, random_composition, is_harness_bug
from .common import SimRec, gen_simplex, trim, tail

ID = "C17"
CHUNK = 40
BUDGET = {"quick": 50, "thorough": 600}
MAX_RUNS = {"quick": 6000, "thorough": 800000}
TOL = 1e-12

RULE = (
    "One run = one seeded history of 3..25 public operations on one GMMMachine (ML or MAP, 1..4 "
    "components x 1..4 features): assign weights / means / variances / variance floors (scalar, "
    "per-feature, per-component-and-feature; raised and lowered) in any order; augmented "
    "assignments (m.attr *= k, += k) and edit-then-reassign of the array the machine holds; tiny "
    "drifts of variances and floors (1e-9..1e-4 relative, up to 40 consecutive setter calls); one "
    "EM step with any update switches on NumPy data or on a Dask array under a random executor "
    "model; 15..60 EM steps; restart events (deepcopy, pickle round trip, HDF5 save->from_hdf5 "
    "by path or open file, HDF5 save->load into a machine of another shape) after which the "
    "restarted object replaces the live one. After every operation: likelihoods and statistics "
    "on a probe batch equal those of a fresh machine built from the visible parameters (1e-12), "
    "variances >= floors. Non-trivial = history contains at least one restart or EM step; "
    "distinct = distinct case digest + event-log digest."
)
ASSUMPTIONS = [
    "the fresh machine is built through the public constructor and setters in the order "
    "weights, means, variance_thresholds, variances",
    "every generated parameter change is at least 5 %, so a stale cache is >= 5 orders of "
    "magnitude above the tolerance",
    "HDF5 restarts use real h5py files in a per-run temporary directory; no storage faults",
]
COMPONENTS = {
    "real": ["bob.learn.em.gmm.GMMMachine (setters, fit, save/load/from_hdf5)", "h5py",
             "pickle / copy.deepcopy", "dask graph construction"],
    "stub": ["Dask scheduler (SimScheduler)"],
}

OPS = ["set_weights", "set_means", "set_variances", "set_floor", "em_step", "em_step",
       "deepcopy", "pickle", "shallow_copy", "hdf5_from", "hdf5_load", "nudge_variances", "nudge_floor",
       "em_many", "aug_assign", "edit_reassign", "lend_arrays", "parallel_stats", "marginalise"]


_ATTR = {"set_weights": "weights", "set_means": "means", "set_variances": "variances",
         "set_floor": "variance_thresholds"}


def setup():
    pass


def _rand_floor(rng, rs, c, d, scale2):
    form = rng.choice(["scalar", "vector", "matrix"])
    level = rng.choice([1e-6, 1e-2, 0.3, 1.0, 3.0]) * scale2
    if form == "scalar":
        return float(sig6(level))
    if form == "vector":
        return L(sig6(level * rs.uniform(0.5, 2.0, size=d)))
    return L(sig6(level * rs.uniform(0.5, 2.0, size=(c, d))))


def gen_case(rng, tier):
    c = tail(rng, 1, 4, [9, 17, 33, 65], 0.04)
    d = tail(rng, 1, 4, [9, 17, 33], 0.04)
    rs = np.random.RandomState(rng.getrandbits(32))
    scale = 10.0 ** rng.uniform(-1, 1)
    scale2 = scale * scale
    means = sig6(rs.randn(c, d) * 2 * scale)
    variances = sig6(rs.uniform(0.5, 2.0, size=(c, d)) * scale2)
    probe = sig6(rs.randn(5, d) * 2.5 * scale)
    n_ops = rng.randint(3, 25 if tier == "thorough" else 14)
    if rng.random() < 0.05:
        n_ops = rng.randint(40, 90)  # a machine that lives for a long time
    ops = []
    for _ in range(n_ops):
        name = rng.choice(OPS)
        lay = rng.choice([None, None, None, "F", "T", "strided"])
        # the caller first tries an array of the wrong shape (the setter raises, or not), catches
        # the exception and then assigns the right one
        rej = rng.choice([None, None, None, None, "features", "components"])
        if name == "set_weights":
            w = gen_simplex(rng, c)
            if c >= 2 and rng.random() < 0.2:
                # pruned components: some weights are exactly zero (one-hot in the extreme)
                w = np.array(w)
                for j in rng.sample(range(c), rng.randint(1, c - 1)):
                    w[j] = 0.0
                w = w / w.sum()
            ops.append({"op": name, "v": L(w), "lay": lay, "reject": rej})
        elif name == "set_means":
            ops.append({"op": name, "v": L(sig6(rs.randn(c, d) * 2 * scale)), "lay": lay,
                        "reject": rej})
        elif name == "set_variances":
            ops.append({"op": name, "v": L(sig6(rs.uniform(0.05, 4.0, size=(c, d)) * scale2)),
                        "lay": lay, "reject": rej})
        elif name == "set_floor":
            ops.append({"op": name, "v": _rand_floor(rng, rs, c, d, scale2), "lay": lay,
                        "reject": rej})
        elif name == "em_step":
            n = rng.randint(max(2, min(c, 10)), 12)
            X = sig6(means[rs.randint(0, c, size=n)] + rs.randn(n, d) * scale * 1.2)
            o = {"op": name, "X": L(X), "um": rng.random() < 0.7, "uv": rng.random() < 0.6,
                 "uw": rng.random() < 0.6, "backend": rng.choice(["np", "np", "da"])}
            if o["backend"] == "da":
                o["chunks"] = random_composition(rng, n)
                o["sched"] = gen_sched(rng)
            ops.append(o)
        elif name == "nudge_variances":
            # a long-lived machine whose variances drift in tiny steps (training near
            # convergence, incremental adaptation): every step is a public setter call
            ops.append({"op": name, "eps": rng.choice([1e-9, 1e-7, 1e-6, 5e-6, 1e-4]),
                        "times": rng.randint(1, 40), "seed": rng.randint(0, 10 ** 6)})
        elif name == "aug_assign":
            # `m.attr *= k` / `m.attr += k`: Python reads the property, updates the array in
            # place, and calls the setter with that same object
            ops.append({"op": name, "attr": rng.choice(["variance_thresholds", "variances",
                                                        "means", "weights"]),
                        "how": rng.choice(["mul", "add"]),
                        "k": rng.choice([0.3, 0.5, 2.0, 3.0, 10.0])})
        elif name == "edit_reassign":
            # the caller keeps the array it assigned, edits it in place and assigns it again
            ops.append({"op": name, "attr": rng.choice(["variance_thresholds", "variances", "means"]),
                        "k": rng.choice([0.3, 0.5, 2.0, 3.0, 10.0])})
        elif name == "parallel_stats":
            # several caller threads use the machine at the same time (what Dask's threaded
            # scheduler does with the E-step tasks of one iteration); every one of them must
            # see the current visible parameters
            n = rng.randint(4, 10)
            X = sig6(means[rs.randint(0, c, size=n)] + rs.randn(n, d) * scale * 1.2)
            ops.append({"op": name, "X": L(X), "parts": rng.randint(2, 4),
                        "first": rng.choice(["variances", "weights", "floor", "nothing"]),
                        "sched": dict(gen_sched(rng), mode="threads")})
        elif name == "lend_arrays":
            # `adapted.variances = ubm.variances`: the arrays this machine holds (and the ones
            # the caller assigned to it) are assigned to ANOTHER machine with other floors,
            # which is then modified / trained
            ops.append({"op": name, "floor_factor": rng.choice([0.1, 1.5, 3.0, 10.0]),
                        "then": rng.choice(["nothing", "aug", "set_floor", "fit"]),
                        "seed": rng.randint(0, 10 ** 6)})
        elif name == "nudge_floor":
            ops.append({"op": name, "eps": rng.choice([1e-9, 1e-7, 1e-6, 5e-6, 1e-4]),
                        "times": rng.randint(1, 10)})
        elif name == "em_many":
            n = rng.randint(max(4, min(2 * c, 16)), 20)
            X = sig6(means[rs.randint(0, c, size=n)] + rs.randn(n, d) * scale * 1.2)
            ops.append({"op": name, "X": L(X), "steps": rng.randint(15, 60),
                        "uw": rng.random() < 0.5})
        elif name == "marginalise":
            # the model is reduced to a subset of its features by slicing its parameters
            # through the setters, in either order
            kp = sorted(rng.sample(range(d), rng.randint(1, d)))
            ops.append({"op": name, "keep": kp,
                        "order": rng.choice(["variances_first", "means_first"])})
        elif name == "hdf5_from":
            ops.append({"op": name, "by": rng.choice(["path", "file"])})
        elif name == "hdf5_load":
            ops.append({"op": name, "by": rng.choice(["path", "file"]),
                        "other_c": tail(rng, 1, 4, [9, 17], 0.05), "other_d": rng.randint(1, 4),
                        "target_floor_factor": rng.choice([None, None, 3.0, 10.0])})
        else:
            ops.append({"op": name})
        if rng.random() < 0.25:
            # the object the program held BEFORE the last deepcopy / pickle / reload is still alive
            # and is used and modified in between (two live related machines, interleaved use)
            # ("prior": the related machine is the UBM a MAP machine was built on)
            ops[-1]["sib"] = {"attr": rng.choice(["variances", "weights", "floor", "means", "use"]),
                              "k": rng.choice([0.3, 0.5, 2.0, 3.0]),
                              "target": rng.choice(["sibling", "prior"])}
    return {
        "kind": rng.choice(["ml", "ml", "map"]),
        "c": c, "d": d,
        "means": L(means), "variances": L(variances), "weights": L(gen_simplex(rng, c)),
        "floor0": None if rng.random() < 0.5 else _rand_floor(rng, rs, c, d, scale2),
        "rf": rng.choice([None, 4.0]), "alpha": 0.5,
        "probe": L(probe), "ops": ops,
    }


def sample_view(case):
    return trim(case)


def _floor(v):
    return A(v) if isinstance(v, list) else v


def _lay(o, arr):
    """Arrays handed to the setters come in every valid memory layout."""
    lay = o.get("lay")
    if lay == "F" and arr.ndim == 2:
        return np.asfortranarray(arr)
    if lay == "T" and arr.ndim == 2:   # a (features, components) table handed over as .T
        return np.ascontiguousarray(arr.T).T
    if lay == "strided":
        big = np.zeros(tuple(2 * n for n in arr.shape))
        sl = tuple(slice(None, None, 2) for _ in arr.shape)
        big[sl] = arr
        return big[sl]
    if lay == "f32":
        return arr.astype(np.float32).astype(float)
    return arr


def _build(case):
    from bob.learn.em import GMMMachine

    def base():
        g = GMMMachine(case["c"])
        g.weights = A(case["weights"])
        g.means = A(case["means"])
        if case["floor0"] is not None:
            g.variance_thresholds = _floor(case["floor0"])
        g.variances = A(case["variances"])
        return g

    if case["kind"] == "map":
        prior = base()
        m = GMMMachine(case["c"], trainer="map", ubm=prior, map_relevance_factor=case["rf"],
                       map_alpha=case["alpha"])
        return m, prior
    return base(), None


def _fresh(m):
    from bob.learn.em import GMMMachine

    f = GMMMachine(m.n_gaussians)
    f.weights = np.array(m.weights, dtype=float)
    f.means = np.array(m.means, dtype=float)
    f.variance_thresholds = copy.deepcopy(m.variance_thresholds)
    f.variances = np.array(m.variances, dtype=float)
    return f


def _observe(g, probe):
    with np.errstate(all="ignore"):
        out = [("log_likelihood", np.asarray(g.log_likelihood(probe), float)),
               ("log_weighted_likelihood", np.asarray(g.log_weighted_likelihood(probe), float)),
               ("single_sample_ll", np.asarray(g.log_likelihood(probe[0]), float))]
        st = g.acc_stats(probe)
        out += [("stats.n", np.asarray(st.n, float)), ("stats.sum_px", np.asarray(st.sum_px, float)),
                ("stats.sum_pxx", np.asarray(st.sum_pxx, float)),
                ("stats.log_likelihood", np.asarray(float(st.log_likelihood))),
                ("stats.t", np.asarray(float(st.t)))]
        st1 = g.acc_stats(probe[0])
        out += [("stats1.n", np.asarray(st1.n, float)),
                ("stats1.log_likelihood", np.asarray(float(st1.log_likelihood)))]
    return out


def _check(m, probe, step, opname):
    v = np.asarray(m.variances, float)
    thr = np.asarray(m.variance_thresholds, float)
    if (v < thr).any():
        return Result.violation("variance-below-floor",
                                {"after_op": step, "op": opname, "variances": L(v), "floors": L(thr)})
    fresh = _fresh(m)
    if rel_diff(np.asarray(fresh.variances, float), v) > 0:
        return Result.violation("variance-below-floor",
                                {"after_op": step, "op": opname, "note": "fresh machine re-clamps"})
    a, b = _observe(m, probe), _observe(fresh, probe)
    for (name, x), (_, y) in zip(a, b):
        dv = rel_diff(x, y, scale=1e-300)
        if dv > TOL:
            return Result.violation("stale-state", {"after_op": step, "op": opname,
                                                    "observable": name, "rel_diff": dv,
                                                    "live": L(x), "fresh": L(y)})
    return None


def run_case(case, replay=None):
    from bob.learn.em import GMMMachine

    rec = SimRec(replay)
    probe = A(case["probe"])
    m, prior = _build(case)
    cols = list(range(case["d"]))  # the features (of the original ones) the model still has

    def cut(a):
        """feature-shaped arrays of the case, reduced to the model's current features"""
        a = np.asarray(a)
        if len(cols) != case["d"] and a.ndim >= 1:
            return np.ascontiguousarray(a[..., cols])
        return a
    tmp = tempfile.mkdtemp(prefix="verif-c17-")
    nontrivial = False
    held = []
    siblings = []  # (machine, probe) pairs: objects a restart was taken FROM, still alive
    try:
        v = _check(m, probe, -1, "construct")
        if v is not None:
            v.update(rec.fields())
            return v
        for i, o in enumerate(case["ops"]):
            name = o["op"]
            try:
                with np.errstate(all="ignore"):
                    cc, dd = np.asarray(m.means).shape
                    before_op = m
                    # (a floors array that happens to broadcast against the variances is not a
                    # wrong shape: it is accepted and legitimately reshapes the variances)
                    if o.get("reject") and name in _ATTR and not (
                            name == "set_floor" and (cc if o["reject"] == "components" else dd) < 2):
                        if name == "set_weights":
                            bad = np.full(cc + 1, 1.0 / (cc + 1))
                        elif name == "set_floor":
                            bad = np.full(dd + 1, 0.5) if o["reject"] == "features" \
                                else np.full((cc + 1, dd), 0.5)
                        else:
                            bad = np.ones((cc, dd + 1) if o["reject"] == "features" else (cc + 1, dd))
                        try:
                            setattr(m, _ATTR[name], bad)
                            rec.probe("wrong_shape_assignment_accepted")
                        except Exception as _e:
                            if is_harness_bug(_e):
                                raise HarnessError(f"harness bug: {_e!r}")
                            rec.probe("wrong_shape_assignment_raised")
                            rec.faults["F10_rejected_call"] = rec.faults.get("F10_rejected_call", 0) + 1
                    if name == "set_weights":
                        m.weights = _lay(o, A(o["v"]))
                        rec.probe("weights_with_exact_zeros", bool((A(o["v"]) == 0).any()))
                    elif name == "set_means":
                        m.means = _lay(o, cut(A(o["v"])))
                    elif name == "set_variances":
                        arr = _lay(o, cut(A(o["v"])))
                        rec.probe("non_c_contiguous_array_assigned", o.get("lay") is not None)
                        held.append(arr)  # the caller keeps the array it assigned
                        m.variances = arr
                    elif name == "set_floor":
                        old = np.asarray(m.variance_thresholds, float)
                        new = np.asarray(cut(_floor(o["v"])), float)
                        if old.shape in ((), new.shape) or new.shape == ():
                            rec.probe("floor_raised", bool((new > old).any()))
                            rec.probe("floor_lowered", bool((new < old).any()))
                        before = np.array(m.variances, float)
                        fl = _floor(o["v"])
                        fl = cut(fl) if isinstance(fl, np.ndarray) else fl
                        m.variance_thresholds = _lay(o, fl) if isinstance(fl, np.ndarray) else fl
                        rec.probe("floor_clamped_something",
                                  bool((np.asarray(m.variances) != before).any()))
                    elif name == "em_step":
                        nontrivial = True
                        m.update_means, m.update_variances, m.update_weights = o["um"], o["uv"], o["uw"]
                        m.max_fitting_steps = 1
                        X = cut(A(o["X"]))
                        if o["backend"] == "da":
                            def go(X=X, o=o):
                                m.fit(da.from_array(X, chunks=(tuple(o["chunks"]), (X.shape[1],))))
                            rec.run(o["sched"], go, label=f"op{i}")
                            rec.probe("em_step_dask_" + o["sched"]["mode"])
                        else:
                            m.fit(X)
                            rec.probe("em_step_numpy")
                    elif name == "aug_assign":
                        attr, k = o["attr"], o["k"]
                        if attr == "weights" and o["how"] == "add":
                            k = 0.25
                        if attr == "variance_thresholds" and o["how"] == "add":
                            k = k * float(np.mean(np.asarray(m.variances)))
                        if attr == "means" and o["how"] == "add":
                            k = k * float(np.sqrt(np.mean(np.asarray(m.variances))))
                        if o["how"] == "mul":
                            if attr == "variance_thresholds":
                                m.variance_thresholds *= k
                            elif attr == "variances":
                                m.variances *= k
                            elif attr == "means":
                                m.means *= k
                            else:
                                m.weights *= k
                        else:
                            if attr == "variance_thresholds":
                                m.variance_thresholds += k
                            elif attr == "variances":
                                m.variances += k
                            elif attr == "means":
                                m.means += k
                            else:
                                m.weights += k
                        rec.probe("augmented_assignment")
                        rec.probe("augmented_assignment_on_array_floors",
                                  attr == "variance_thresholds"
                                  and isinstance(m.variance_thresholds, np.ndarray))
                    elif name == "edit_reassign":
                        attr, k = o["attr"], o["k"]
                        cur = getattr(m, attr)
                        if isinstance(cur, np.ndarray) and cur.ndim > 0:
                            keep = cur  # the object the machine currently holds
                            if attr == "means":
                                keep += k * np.sqrt(np.mean(np.asarray(m.variances)))
                            else:
                                keep *= k
                            setattr(m, attr, keep)
                            rec.probe("edited_array_reassigned")
                    elif name == "marginalise":
                        machines = [m] + ([m.ubm] if getattr(m, "ubm", None) is not None else [])
                        kp = [j for j in range(len(cols)) if cols[j] in o["keep"]]
                        if kp and len(kp) < len(cols) and all(
                                np.ndim(g.variance_thresholds) == 0 for g in machines):
                            for g in machines:
                                if o["order"] == "variances_first":
                                    g.variances = np.array(g.variances, float)[:, kp]
                                    g.means = np.array(g.means, float)[:, kp]
                                else:
                                    g.means = np.array(g.means, float)[:, kp]
                                    g.variances = np.array(g.variances, float)[:, kp]
                            cols[:] = [cols[j] for j in kp]
                            probe = probe[:, kp]
                            rec.probe("feature_dimension_changed_through_setters")
                    elif name == "parallel_stats":
                        import dask
                        Xp = cut(A(o["X"]))
                        blocks = np.array_split(Xp, o["parts"])
                        blocks = [b for b in blocks if len(b)]
                        # the concurrent calls are the FIRST use of the machine after an
                        # assignment (anything rebuilt lazily is rebuilt under contention)
                        if o.get("first") == "variances":
                            m.variances = np.array(m.variances, float) * 1.3
                        elif o.get("first") == "weights":
                            w = np.array(m.weights, float)[::-1].copy()
                            m.weights = w
                        elif o.get("first") == "floor":
                            m.variance_thresholds = float(np.mean(np.asarray(m.variances))) * 1.1

                        def go(blocks=blocks):
                            tasks = [dask.delayed(m.acc_stats)(b) for b in blocks] + \
                                    [dask.delayed(m.log_likelihood)(b) for b in blocks]
                            return dask.compute(*tasks)
                        outs = rec.run(o["sched"], go, label=f"op{i}")
                        fr = _fresh(m)
                        for b, st in zip(blocks, outs[:len(blocks)]):
                            ref = fr.acc_stats(b)
                            for fld in ("n", "sum_px", "sum_pxx"):
                                if rel_diff(np.asarray(getattr(st, fld), float),
                                            np.asarray(getattr(ref, fld), float), scale=1e-300) > TOL:
                                    return Result.violation(
                                        "stale-state", {"after_op": i, "op": name,
                                                        "observable": "concurrent acc_stats." + fld},
                                        **rec.fields())
                            if abs(float(st.log_likelihood) - float(ref.log_likelihood)) > \
                                    TOL * max(1.0, abs(float(ref.log_likelihood))):
                                return Result.violation(
                                    "stale-state", {"after_op": i, "op": name,
                                                    "observable": "concurrent acc_stats.log_likelihood"},
                                    **rec.fields())
                        for b, ll in zip(blocks, outs[len(blocks):]):
                            if rel_diff(np.asarray(ll, float), np.asarray(fr.log_likelihood(b), float),
                                        scale=1e-300) > TOL:
                                return Result.violation(
                                    "stale-state", {"after_op": i, "op": name,
                                                    "observable": "concurrent log_likelihood"},
                                    **rec.fields())
                        rec.probe("concurrent_callers")
                    elif name == "lend_arrays":
                        other = GMMMachine(m.n_gaussians)
                        other.variance_thresholds = float(np.mean(np.asarray(m.variances))) * o["floor_factor"]
                        for arr in held[-3:]:  # arrays the caller assigned to m earlier
                            if np.shape(arr) == np.shape(m.variances):
                                other.variances = arr
                        other.weights = m.weights
                        other.means = m.means
                        other.variances = m.variances
                        if o["then"] == "aug":
                            other.variance_thresholds *= 2.0
                            other.weights = np.asarray(other.weights) * 0.5
                        elif o["then"] == "set_floor":
                            other.variance_thresholds = np.asarray(other.variances) * 4.0
                        elif o["then"] == "fit":
                            lrs = np.random.RandomState(o["seed"])
                            other.max_fitting_steps = 2
                            other.update_variances = other.update_weights = True
                            other.fit(np.asarray(other.means)[lrs.randint(0, m.n_gaussians, size=8)]
                                      + lrs.randn(8, np.asarray(m.means).shape[1]))
                        rec.probe("arrays_lent_to_another_machine")
                    elif name == "nudge_variances":
                        nrs = np.random.RandomState(o["seed"])
                        for _ in range(o["times"]):
                            v = np.array(m.variances, float)
                            m.variances = v * (1.0 + o["eps"] * nrs.choice([-1.0, 1.0], size=v.shape))
                        rec.probe("tiny_variance_updates")
                    elif name == "nudge_floor":
                        for _ in range(o["times"]):
                            v = np.array(m.variances, float)
                            m.variance_thresholds = v * (1.0 + o["eps"])
                        rec.probe("tiny_floor_raises")
                    elif name == "em_many":
                        nontrivial = True
                        m.update_means, m.update_variances, m.update_weights = True, True, o["uw"]
                        m.max_fitting_steps = o["steps"]
                        m.convergence_threshold = None
                        m.fit(cut(A(o["X"])))
                        m.convergence_threshold = 1e-5
                        rec.probe("em_many_steps")
                    elif name == "deepcopy":
                        nontrivial = True
                        m = copy.deepcopy(m)
                        rec.faults["F5_restart_deepcopy"] = rec.faults.get("F5_restart_deepcopy", 0) + 1
                    elif name == "shallow_copy":
                        nontrivial = True
                        old = m
                        m = copy.copy(m)
                        # the original keeps living and is modified through its setters; the
                        # copy must keep computing from its own visible parameters
                        old.variances = np.array(old.variances, float) * 2.0
                        old.weights = np.array(old.weights, float)[::-1].copy()
                        rec.faults["F5_restart_shallow_copy"] = rec.faults.get("F5_restart_shallow_copy", 0) + 1
                    elif name == "pickle":
                        nontrivial = True
                        m = pickle.loads(pickle.dumps(m))
                        rec.faults["F5_restart_pickle"] = rec.faults.get("F5_restart_pickle", 0) + 1
                    elif name in ("hdf5_from", "hdf5_load"):
                        nontrivial = True
                        path = os.path.join(tmp, f"m{i}.hdf5")
                        m.save(path) if o["by"] == "path" else _save_file(m, path)
                        ubm = m.ubm
                        if name == "hdf5_from":
                            if o["by"] == "path":
                                m = GMMMachine.from_hdf5(path, ubm=ubm)
                            else:
                                with h5py.File(path, "r") as f:
                                    m = GMMMachine.from_hdf5(f, ubm=ubm)
                            rec.faults["F5_restart_hdf5_from"] = rec.faults.get("F5_restart_hdf5_from", 0) + 1
                        else:
                            oc, od = o["other_c"], o["other_d"]
                            if m.trainer == "map":
                                # a MAP machine of another shape that is handed the right prior
                                p2 = GMMMachine(oc)
                                p2.means = np.zeros((oc, od))
                                p2.variances = np.ones((oc, od))
                                other = GMMMachine(oc, trainer="map", ubm=p2)
                                other.ubm = ubm
                            else:
                                other = GMMMachine(oc)
                                other.means = np.zeros((oc, od))
                                other.variances = np.ones((oc, od))
                            if o.get("target_floor_factor"):
                                # the recycled machine has floors of its own, above the
                                # variances the file holds: none of them may survive the load
                                other.variance_thresholds = o["target_floor_factor"] * float(
                                    np.max(np.asarray(m.variances)))
                                rec.probe("load_target_with_floors_above_the_stored_variances")
                            saved = [np.array(m.weights), np.array(m.means), np.array(m.variances),
                                     np.broadcast_to(np.asarray(m.variance_thresholds, float),
                                                     np.shape(m.variances)).copy()]
                            if o["by"] == "path":
                                other.load(path)
                            else:
                                with h5py.File(path, "r") as f:
                                    other.load(f)
                            got = [np.array(other.weights), np.array(other.means),
                                   np.array(other.variances),
                                   np.broadcast_to(np.asarray(other.variance_thresholds, float),
                                                   np.shape(other.variances))]
                            for nm_, a_, b_ in zip(("weights", "means", "variances", "floors"),
                                                   saved, got):
                                if a_.shape != b_.shape or rel_diff(a_, b_) > 0:
                                    return Result.violation(
                                        "stale-state", {"after_op": i, "op": name,
                                                        "observable": "visible " + nm_ + " after load() "
                                                        "differ from the saved machine's"},
                                        **rec.fields())
                            m = other
                            rec.faults["F5_restart_hdf5_load"] = rec.faults.get("F5_restart_hdf5_load", 0) + 1
                    if m is not before_op and name in ("deepcopy", "pickle", "hdf5_from", "hdf5_load"):
                        # (a shallow copy shares its arrays with the original by the caller's own
                        # doing, so it is not kept)
                        siblings.append((before_op, probe))
                        del siblings[:-2]
                    related = list(siblings)
                    if o.get("sib") and o["sib"].get("target") == "prior" and \
                            getattr(m, "ubm", None) is not None:
                        related = [(m.ubm, probe)]
                    if o.get("sib") and related:
                        s_, p_ = related[-1]
                        a_, k_ = o["sib"]["attr"], o["sib"]["k"]
                        if a_ == "variances":
                            s_.variances = np.array(s_.variances, float) * k_
                        elif a_ == "weights":
                            s_.weights = np.array(s_.weights, float)[::-1].copy()
                        elif a_ == "floor":
                            s_.variance_thresholds = float(np.mean(np.asarray(s_.variances))) * k_
                        elif a_ == "means":
                            s_.means = np.array(s_.means, float) + k_ * np.sqrt(
                                np.mean(np.asarray(s_.variances)))
                        else:
                            s_.acc_stats(p_)
                        rec.probe("sibling_machine_modified_between_operations")
            except HarnessError:
                raise
            except Exception as e:
                if is_harness_bug(e):
                    raise HarnessError(f"harness bug: {e!r}")
                return Result.violation("operation-raises", {"after_op": i, "op": name,
                                                             "exception": repr(e)[:300]},
                                        **rec.fields())
            v = _check(m, probe, i, name)
            if v is not None:
                v.update(rec.fields())
                return v
            for s_, p_ in siblings:
                v = _check(s_, p_, i, name + " (on the machine a copy was taken from)")
                if v is not None:
                    v.update(rec.fields())
                    return v
        rec.note([np.asarray(m.weights), np.asarray(m.means), np.asarray(m.variances)])
        f = rec.fields()
        f["nontrivial"] = nontrivial
        f["tasks"] = f["tasks"] + len(case["ops"])
        return Result.ok(**f)
    finally:
        for fn in os.listdir(tmp):
            os.unlink(os.path.join(tmp, fn))
        os.rmdir(tmp)


def _save_file(m, path):
    with h5py.File(path, "w") as f:
        m.save(f)


def signature(case, clause):
    return case["kind"]


def shrink(case):
    ops = case["ops"]
    # drop operations (ddmin-like: halves first, then singles)
    n = len(ops)
    if n > 1:
        yield dict(case, ops=ops[: n // 2])
        yield dict(case, ops=ops[n // 2:])
    for i in range(n - 1, -1, -1):
        yield dict(case, ops=ops[:i] + ops[i + 1:])
    for i, o in enumerate(ops):
        if o["op"] == "em_step" and o["backend"] == "da":
            o2 = {k: v for k, v in o.items() if k not in ("chunks", "sched")}
            o2["backend"] = "np"
            yield dict(case, ops=ops[:i] + [o2] + ops[i + 1:])
            if o["sched"]["mode"] != "shared" or o["sched"]["policy"] != "fifo":
                o3 = dict(o, sched=dict(o["sched"], mode="shared", policy="fifo"))
                yield dict(case, ops=ops[:i] + [o3] + ops[i + 1:])
        if o.get("sib"):
            yield dict(case, ops=ops[:i] + [{k: v for k, v in o.items() if k != "sib"}] + ops[i + 1:])
        if o["op"] in ("hdf5_from", "hdf5_load") and o["by"] != "path":
            yield dict(case, ops=ops[:i] + [dict(o, by="path")] + ops[i + 1:])
    if case["kind"] == "map":
        yield dict(case, kind="ml")
    if case["floor0"] is not None:
        yield dict(case, floor0=None)
