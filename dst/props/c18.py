"""C18 — saving and loading a GMM or its statistics preserves them exactly.

Simulated system: a small store of HDF5 slots (real h5py files in a per-run temp dir) and a
live object that is repeatedly made durable and restarted from its durable image: save by
path or open file -> from_hdf5 (path / open file, with the prior for MAP) or load into an
existing object of the same or another shape -> the reloaded object replaces the live one;
re-save into another slot; legacy-layout image of the same object (DESIGN.md §5.6).
"""
import copy
import os
import tempfile

import h5py
import numpy as np

from ..util import A, L, Result, sig6, bits_equal, rel_diff, is_harness_bug
from ..sim import HarnessError
from .common import SimRec, gen_simplex, trim

ID = "C18"
CHUNK = 30
BUDGET = {"quick": 50, "thorough": 600}
MAX_RUNS = {"quick": 4000, "thorough": 400000}

RULE = (
    "One run = one object (GMMMachine: ML or MAP with a prior, 1..128 components, scalar/vector/"
    "matrix floors, any update switches, iteration limit in {None,0..9}, threshold in {None, "
    "values}, optionally pre-trained; or GMMStats: accumulated from data, zero, or arbitrary "
    "values) taken through a seeded chain of 1..4 restart-from-durable-state steps (save by path|"
    "open file; reload by from_hdf5 path|open file, load into an existing object of the same or "
    "a different shape, or roll back: load into a copy of the saved object that has drifted by "
    "0..1e-3), each followed by: bit-identity of parameters/statistics, equality under ==, "
    "identical scores on a probe batch, every recorded setting equal, identical continued "
    "training, re-save equals the first file dataset by dataset, legacy-layout image loads to "
    "the same model (always checked for machines with >= 9 components). Non-trivial = chain "
    "length >= 1 (always); distinct = distinct case digest."
)
ASSUMPTIONS = [
    "real h5py on real files; no storage faults are injected (DESIGN.md §4.2: the property "
    "promises nothing about crashes during save)",
    "the legacy-layout writer in this module is the inverse of the repository's legacy reader; "
    "it is validated at setup against tests/data/gmm_ML_legacy.hdf5 <-> gmm_ML.hdf5",
    "settings the file format does not record (relevance factor, alpha, random state, "
    "mean_var_update_threshold) stay at their defaults in generated machines",
]
COMPONENTS = {
    "real": ["bob.learn.em.gmm GMMMachine/GMMStats save, load, from_hdf5, fit", "h5py, HDF5 files"],
    "stub": ["legacy-format writer (harness, validated against the repo's legacy test file)"],
}


def setup():
    """Validate the legacy writer against the repository's own legacy/current pair."""
    from bob.learn.em import GMMMachine
    from .. import seams

    data = os.path.join(seams.repo_root(), "tests", "data")
    leg, cur = os.path.join(data, "gmm_ML_legacy.hdf5"), os.path.join(data, "gmm_ML.hdf5")
    if not (os.path.exists(leg) and os.path.exists(cur)):
        return
    m = GMMMachine.from_hdf5(cur)
    tmp = tempfile.mkdtemp(prefix="verif-c18-setup-")
    try:
        p = os.path.join(tmp, "leg.hdf5")
        _write_legacy_machine(m, p)
        with h5py.File(p, "r") as a, h5py.File(leg, "r") as b:
            for name in ("m_weights", "m_n_gaussians", "m_gaussians0/m_mean",
                         "m_gaussians1/m_variance", "m_gaussians1/m_variance_thresholds"):
                if not np.array_equal(np.asarray(a[name]), np.asarray(b[name])) or \
                        a[name].shape != b[name].shape:
                    raise RuntimeError(f"legacy writer does not reproduce {name} of the "
                                       "repository's legacy file")
    finally:
        for fn in os.listdir(tmp):
            os.unlink(os.path.join(tmp, fn))
        os.rmdir(tmp)


# ---------------------------------------------------------------------------
def _rand_floor(rng, rs, c, d, scale2):
    form = rng.choice(["default", "scalar", "vector", "matrix"])
    level = rng.choice([1e-6, 1e-2, 0.3]) * scale2
    if form == "default":
        return None
    if form == "scalar":
        return float(sig6(level))
    if form == "vector":
        return L(sig6(level * rs.uniform(0.5, 2.0, size=d)))
    return L(sig6(level * rs.uniform(0.5, 2.0, size=(c, d))))


def _gen_chain(rng, is_machine):
    chain = []
    # (a tail of long chains: ten and more save -> load generations)
    for _ in range(rng.randint(1, 4) if rng.random() < 0.95 else rng.randint(8, 30)):
        step = {"save_by": rng.choice(["path", "file"]),
                "reload": rng.choice(["from_path", "from_file", "load_same", "load_other_shape",
                                      "load_rollback"]),
                "drift": rng.choice([0.0, 1e-9, 1e-7, 1e-6, 1e-3]),
                "load_by": rng.choice(["path", "file"]),
                "target": rng.choice([None, None, "map_machine", "raised_floors"])}
        if rng.random() < 0.15:
            # a service loads many other objects (other clients' models) between two generations
            step["others"] = rng.choice([1, 2, 3, 5, 9, 17, 20])
        if rng.random() < 0.25:
            # several objects in one file (a UBM at the root, clients in groups): the object is
            # written into, and read from, a sub-group of an open file
            step["where"] = rng.choice(["group", "group_beside_root_object"])
        chain.append(step)
    return chain


def gen_case(rng, tier):
    rs = np.random.RandomState(rng.getrandbits(32))
    c = rng.randint(1, 4)
    d = rng.randint(1, 4)
    if rng.random() < 0.12:  # real UBMs are large: two-digit (and more) component counts
        c = rng.choice([9, 10, 11, 12, 16, 21, 33, 101, 128])
        d = rng.choice([1, 2, 3, 6, 9, 17, 40])
    scale = 10.0 ** rng.uniform(-1, 1)
    scale2 = scale * scale
    means = sig6(rs.randn(c, d) * 2 * scale)
    variances = sig6(rs.uniform(0.3, 2.0, size=(c, d)) * scale2)
    n = rng.randint(max(3, min(c, 20)), 24)
    X = sig6(means[rs.randint(0, c, size=n)] + rs.randn(n, d) * scale)
    probe = sig6(rs.randn(4, d) * 2.5 * scale)
    if rng.random() < 0.65:
        max_steps = rng.choice([None, 0, 1, 2, 3, 5, 9])
        thr = rng.choice([None, 0.0, 1e-5, 1e-3, 1e-2, 0.3])
        if max_steps is None and thr is None:
            thr = 1e-3
        if max_steps is None and thr == 0.0:
            thr = 1e-3  # keep unlimited training finite
        case = {
            "kind": rng.choice(["ml", "ml", "map"]), "c": c, "d": d,
            "means": L(means), "variances": L(variances), "weights": L(gen_simplex(rng, c)),
            "floor": _rand_floor(rng, rs, c, d, scale2),
            "um": rng.random() < 0.7, "uv": rng.random() < 0.5, "uw": rng.random() < 0.5,
            "max_steps": max_steps, "thr": thr,
            "pretrain": rng.choice([0, 0, 1, 2]),
            "X": L(X), "probe": L(probe), "chain": _gen_chain(rng, True),
            "legacy_at": 0 if c > 8 else rng.choice([None, 0]),
            # parameter arrays handed to the setters in another floating dtype
            "pdtype": rng.choice(["float64"] * 9 + ["float32", "float16"]),
            # how the state to be saved was reached: after (pre-)training, the switches may be
            # changed and parameters / floors assigned by hand, in any order
            "post": [rng.choice([{"op": "flip", "um": rng.random() < 0.5, "uv": rng.random() < 0.5,
                                  "uw": rng.random() < 0.5},
                                 {"op": "scale", "attr": rng.choice(["variances", "means", "weights"]),
                                  "k": rng.choice([0.5, 1.3, 2.0])},
                                 {"op": "floor_bump", "up": rng.choice([2.0, 10.0, 50.0])},
                                 {"op": "floor_raise", "up": rng.choice([0.5, 1.0, 2.0, 10.0])}])
                     for _ in range(rng.choice([0, 0, 1, 2, 3]))],
        }
        if rng.random() < 0.3:
            # loads that are refused (a statistics file read as a machine, a MAP file read
            # without its prior, a missing file) happen in the same process before the state to
            # be saved is reached; the caller catches the exceptions
            case["failed_loads"] = [rng.choice(["stats_file_as_machine", "map_file_without_prior",
                                                "missing_file", "load_stats_file_into_live"])
                                    for _ in range(rng.randint(1, 2))]
        if rng.random() < 0.12:
            # special but valid parameter values, stored as they are (no training in between)
            case["pretrain"], case["post"], case["pdtype"] = 0, [], "float64"
            sp = rng.choice(["tiny_variances", "zero_weights", "negative_zero_means", "huge_values",
                             "denormals"])
            case["special"] = sp
            if sp == "tiny_variances":
                fl = rng.choice([1e-20, 1e-30, 1e-300, 2.3e-308])
                case["floor"] = fl
                v = np.array(variances)
                for _ in range(rng.randint(1, c * d)):
                    v[rng.randrange(c), rng.randrange(d)] = fl * rng.choice([1.0, 1.0, 3.0, 1e3])
                case["variances"] = L(v)
            elif sp == "zero_weights" and c >= 2:
                w = np.array(case["weights"])
                for j in rng.sample(range(c), rng.randint(1, c - 1)):
                    w[j] = 0.0
                case["weights"] = L(w / w.sum())
            elif sp == "negative_zero_means":
                mm = np.array(means)
                for _ in range(rng.randint(1, c * d)):
                    mm[rng.randrange(c), rng.randrange(d)] = rng.choice([-0.0, 0.0])
                case["means"] = L(mm)
            elif sp == "huge_values":
                case["means"] = L(means * rng.choice([1e100, 1e150, 1e300]))
                case["variances"] = L(variances * rng.choice([1e100, 1e200, 1e300]))
            else:
                mm = np.array(means)
                for _ in range(rng.randint(1, c * d)):
                    mm[rng.randrange(c), rng.randrange(d)] = rng.choice([5e-324, -5e-324, 1e-310])
                case["means"] = L(mm)
        return case
    src = rng.choice(["acc", "acc", "zero", "values"])
    vals_n = sig6(rs.uniform(0, 50, size=c))
    vals_px = sig6(rs.randn(c, d) * 100 * scale)
    if rng.random() < 0.25:
        for _ in range(rng.randint(1, c)):
            vals_n[rng.randrange(c)] = rng.choice([0.0, 0.0, 5e-324, 1e300])
        for _ in range(rng.randint(1, c * d)):
            vals_px[rng.randrange(c), rng.randrange(d)] = rng.choice([0.0, -0.0, 5e-324, -1e300])
    return {
        "kind": "stats", "c": c, "d": d, "src": src,
        "means": L(means), "variances": L(variances), "weights": L(gen_simplex(rng, c)),
        "X": L(X),
        "values": {"t": rng.randint(0, 1000), "ll": float(sig6(-rs.uniform(0, 1e4))),
                   "n": L(vals_n),
                   "sum_px": L(vals_px),
                   "sum_pxx": L(sig6(rs.uniform(0, 1e4, size=(c, d)) * scale2))},
        "chain": _gen_chain(rng, False),
        "other_shape": [rng.randint(1, 4), rng.randint(1, 4)],
        "legacy_at": rng.choice([None, 0]),
    }


def sample_view(case):
    return trim(case)


# ---------------------------------------------------------------------------
def _floor(v):
    return A(v) if isinstance(v, list) else v


def _base_gmm(case):
    from bob.learn.em import GMMMachine

    g = GMMMachine(case["c"])
    g.weights = A(case["weights"])
    g.means = A(case["means"])
    if case.get("floor") is not None:
        g.variance_thresholds = _floor(case["floor"])
    g.variances = A(case["variances"])
    return g


def _build_machine(case):
    from bob.learn.em import GMMMachine

    kw = dict(convergence_threshold=case["thr"], max_fitting_steps=case["max_steps"],
              update_means=case["um"], update_variances=case["uv"], update_weights=case["uw"])
    if case["kind"] == "map":
        prior = _base_gmm(case)
        m = GMMMachine(case["c"], trainer="map", ubm=prior, **kw)
        return m, prior
    m = GMMMachine(case["c"], **kw)
    pd = getattr(np, case.get("pdtype", "float64"))
    m.weights = A(case["weights"]).astype(pd)
    m.means = A(case["means"]).astype(pd)
    if case.get("floor") is not None:
        m.variance_thresholds = _floor(case["floor"])
    m.variances = A(case["variances"]).astype(pd)
    return m, None


def _norm(v):
    if isinstance(v, np.generic):
        return v.item()
    if isinstance(v, np.ndarray) and v.ndim == 0:
        return v.item()
    return v


SETTINGS = ("trainer", "max_fitting_steps", "convergence_threshold", "update_means",
            "update_variances", "update_weights", "n_gaussians")


def _settings(m):
    return {k: _norm(getattr(m, k)) for k in SETTINGS}


def _write_legacy_machine(m, path):
    """Inverse of the legacy branch of GMMMachine.from_hdf5."""
    c, d = np.asarray(m.means).shape
    thr = np.broadcast_to(np.asarray(m.variance_thresholds, dtype=float), (c, d))
    with h5py.File(path, "w") as f:
        f["m_n_gaussians"] = np.array([c], dtype=np.int64)
        f["m_n_inputs"] = np.array([d], dtype=np.int64)
        f["m_weights"] = np.asarray(m.weights, dtype=float)
        for i in range(c):
            g = f.create_group(f"m_gaussians{i}")
            g["m_mean"] = np.asarray(m.means[i], dtype=float)
            g["m_variance"] = np.asarray(m.variances[i], dtype=float)
            g["m_variance_thresholds"] = np.array(thr[i], dtype=float)
            g["m_n_inputs"] = np.array([d], dtype=np.int64)
            g["g_norm"] = np.array([float(m.g_norms[i])])


def _write_legacy_stats(st, path):
    """Inverse of the legacy branch of GMMStats.from_hdf5 (0-d scalars)."""
    with h5py.File(path, "w") as f:
        f["n_gaussians"] = int(st.n_gaussians)
        f["n_inputs"] = int(st.n_features)
        f["log_liklihood"] = float(st.log_likelihood)
        f["T"] = int(st.t)
        f["n"] = np.asarray(st.n, dtype=float)
        f["sumPx"] = np.asarray(st.sum_px, dtype=float)
        f["sumPxx"] = np.asarray(st.sum_pxx, dtype=float)


_GROUP = "client_1"


def _file_tree(path, where=None):
    out = {}
    with h5py.File(path, "r") as f:
        if where:
            f = f[_GROUP]
        out["@attrs"] = {k: _norm(v) if not isinstance(v, bytes) else v.decode()
                         for k, v in f.attrs.items()}

        def visit(name, obj):
            if isinstance(obj, h5py.Dataset):
                v = obj[()]
                if isinstance(v, bytes):
                    v = v.decode()
                out[name] = v
        f.visititems(visit)
    return out


def _trees_equal(a, b):
    if set(a) != set(b):
        return f"dataset names differ: {sorted(set(a) ^ set(b))}"
    for k in a:
        x, y = a[k], b[k]
        if isinstance(x, dict):
            if x != y:
                return f"attributes differ: {x} vs {y}"
            continue
        if isinstance(x, str) or isinstance(y, str):
            if x != y:
                return f"{k}: {x!r} vs {y!r}"
            continue
        x, y = np.asarray(x), np.asarray(y)
        if x.shape != y.shape or not np.array_equal(x, y):
            return f"{k}: values differ"
    return None


class _Store:
    def __init__(self):
        self.dir = tempfile.mkdtemp(prefix="verif-c18-")
        self.n = 0

    def slot(self):
        self.n += 1
        return os.path.join(self.dir, f"slot{self.n}.hdf5")

    def close(self):
        for fn in os.listdir(self.dir):
            os.unlink(os.path.join(self.dir, fn))
        os.rmdir(self.dir)


def _state_digest(obj):
    from ..util import digest
    d = {k: v for k, v in vars(obj).items() if k != "ubm"}
    return digest(d)


def _save(obj, path, by, where=None, decoy=None):
    before = _state_digest(obj)
    if where:
        with h5py.File(path, "w") as f:
            if where == "group_beside_root_object" and decoy is not None:
                decoy.save(f)
            obj.save(f.create_group(_GROUP))
    else:
        _save_raw(obj, path, by)
    if _state_digest(obj) != before:
        raise _SaveModified()


class _SaveModified(Exception):
    pass


class _Handle:
    """what the loader is given: a path, an open file, or a group of an open file"""

    def __init__(self, path, by, where=None):
        self.path, self.by, self.where, self.f = path, by, where, None

    def __enter__(self):
        if self.where:
            self.f = h5py.File(self.path, "r")
            return self.f[_GROUP]
        if self.by == "path":
            return self.path
        self.f = h5py.File(self.path, "r")
        return self.f

    def __exit__(self, *a):
        if self.f is not None:
            self.f.close()


def _save_raw(obj, path, by):
    if by == "path":
        obj.save(path)
        # the repo opens the file itself and leaves closing to the garbage collector
        import gc
        gc.collect()
    else:
        with h5py.File(path, "w") as f:
            obj.save(f)


def _load_others(kind, case, store, rec, n, held, prior=None):
    """Save and load n OTHER objects of the same shape but other content; they stay alive."""
    from bob.learn.em import GMMMachine, GMMStats
    c, d = case["c"], case["d"]
    n = min(n, max(0, 48 - len(held)))  # (bounded: a few dozen live objects per history)
    for j in range(n):
        k = len(held) + 1
        path = store.slot()
        if kind == "stats":
            o = GMMStats(c, d)
            o.n = o.n + 0.5 * k
            o.sum_px = o.sum_px + 0.25 * k
            o.sum_pxx = o.sum_pxx + 2.0 * k
            o.t = k
            o.save(path)
            new = GMMStats.from_hdf5(path)
        else:
            o = GMMMachine(c)
            o.means = np.full((c, d), 0.125 * k)
            o.variances = np.full((c, d), 1.0 + 0.5 * k)
            w = np.arange(1, c + 1, dtype=float) + k
            o.weights = w / w.sum()
            o.save(path)
            new = GMMMachine.from_hdf5(path)
        import gc
        gc.collect()
        held.append((new, _state_digest(new)))
    rec.probe("other_objects_loaded_in_between", n > 0)
    rec.probe("more_than_16_objects_alive", len(held) > 16)


def _held_changed(held):
    for idx, (o, dg) in enumerate(held):
        if _state_digest(o) != dg:
            return idx
    return None


def _refused_load(how, live, case, store, rec):
    from bob.learn.em import GMMMachine, GMMStats
    path = store.slot()
    try:
        if how in ("stats_file_as_machine", "load_stats_file_into_live"):
            GMMStats(case["c"], case["d"]).save(path)
            import gc
            gc.collect()
            if how == "stats_file_as_machine":
                GMMMachine.from_hdf5(path)
            else:
                live.load(path)
        elif how == "map_file_without_prior":
            prior = _base_gmm(case)
            mm = GMMMachine(case["c"], trainer="map", ubm=prior)
            with h5py.File(path, "w") as f:
                mm.save(f)
            GMMMachine.from_hdf5(path)
        else:
            GMMMachine.from_hdf5(os.path.join(store.dir, "does-not-exist.hdf5"))
        rec.probe("invalid_load_accepted_" + how)
    except Exception as _e:
        if is_harness_bug(_e):
            raise HarnessError(f"harness bug: {_e!r}")
        rec.probe("refused_load_" + how)
        rec.faults["F10_rejected_call"] = rec.faults.get("F10_rejected_call", 0) + 1
    finally:
        import gc
        gc.collect()


def run_case(case, replay=None):
    rec = SimRec(replay)
    store = _Store()
    try:
        with np.errstate(all="ignore"):
            if case["kind"] == "stats":
                res = _run_stats(case, rec, store)
            else:
                res = _run_machine(case, rec, store)
    finally:
        import gc
        gc.collect()
        store.close()
    f = rec.fields()
    f["nontrivial"] = True
    f["tasks"] = len(case["chain"])
    res.update(f)
    return res


def _fault(rec, name):
    rec.faults[name] = rec.faults.get(name, 0) + 1


def _run_machine(case, rec, store):
    from bob.learn.em import GMMMachine

    X, probe = A(case["X"]), A(case["probe"])
    live, prior = _build_machine(case)
    for fl in case.get("failed_loads", []):
        _refused_load(fl, live, case, store, rec)
    if case["pretrain"]:
        # reach a trained state through the public API, then restore the configured limits
        live.max_fitting_steps = case["pretrain"]
        live.fit(X)
        live.max_fitting_steps = case["max_steps"]
        rec.probe("pretrained")
    for po in case.get("post", []):
        if po["op"] == "flip":
            live.update_means, live.update_variances, live.update_weights = po["um"], po["uv"], po["uw"]
        elif po["op"] == "scale":
            setattr(live, po["attr"], np.array(getattr(live, po["attr"])) * po["k"])
        elif po["op"] == "floor_raise":  # new, higher floors that stay
            live.variance_thresholds = float(np.mean(np.asarray(live.variances))) * po["up"]
        else:  # raise the floors, then lower them again: the variances keep the raised values
            old = copy.deepcopy(live.variance_thresholds)
            live.variance_thresholds = float(np.mean(np.asarray(live.variances))) * po["up"]
            live.variance_thresholds = old
        rec.probe("state_reached_by_hand_after_training")
    rec.probe("map_machine", case["kind"] == "map")
    rec.probe("special_values_" + str(case.get("special")), case.get("special") is not None)
    rec.probe("non_float64_parameters", case.get("pdtype", "float64") != "float64")
    rec.probe("machine_with_10_or_more_components", case["c"] >= 10)
    rec.probe("limit_none", case["max_steps"] is None)
    rec.probe("threshold_none", case["thr"] is None)
    rec.probe("nondefault_threshold", case["thr"] not in (None, 1e-5))
    first_file = None
    orig = live
    held = []
    for i, st in enumerate(case["chain"]):
        path = store.slot()
        try:
            where = st.get("where")
            decoy = None
            if where == "group_beside_root_object":
                decoy = GMMMachine(case["c"])
                decoy.means = np.full((case["c"], case["d"]), 1.25)
                decoy.variances = np.full((case["c"], case["d"]), 3.5)
                decoy.variance_thresholds = 0.125
            rec.probe("object_in_a_group_of_the_file", bool(where))
            _save(live, path, st["save_by"], where, decoy)
        except _SaveModified:
            return Result.violation("save-modifies-the-object", {"step": i})
        except Exception as e:
            if is_harness_bug(e):
                raise HarnessError(f"harness bug: {e!r}")
            return Result.violation("save-raises", {"step": i, "exception": repr(e)[:300],
                                                    "settings": _settings(live)})
        _fault(rec, "F5_save_" + st["save_by"])
        try:
            how = st["reload"]
            if how in ("from_path", "from_file"):
                with _Handle(path, "path" if how == "from_path" else "file", where) as h:
                    new = GMMMachine.from_hdf5(h, ubm=prior)
            else:
                if how == "load_rollback":
                    # roll back to a checkpoint: the target is the saved machine itself after
                    # it has drifted a little (or not at all) since the checkpoint was written
                    new = copy.deepcopy(live)
                    dr = st.get("drift", 0.0)
                    if dr:
                        new.means = np.array(new.means) * (1.0 + dr)
                        new.variances = np.array(new.variances) * (1.0 + dr)
                        w = np.array(new.weights) * (1.0 + dr * np.arange(1, case["c"] + 1))
                        new.weights = w
                elif how == "load_same":
                    if prior is not None:
                        new = GMMMachine(case["c"], trainer="map", ubm=prior)
                    elif st.get("target") == "map_machine":
                        # an existing MAP machine is recycled to hold an ML model
                        p3 = GMMMachine(case["c"])
                        p3.means = np.full((case["c"], case["d"]), 0.5)
                        p3.variances = np.full((case["c"], case["d"]), 2.0)
                        new = GMMMachine(case["c"], trainer="map", ubm=p3)
                        rec.probe("ml_file_loaded_into_a_map_machine")
                    else:
                        new = GMMMachine(case["c"])
                    new.means = np.zeros((case["c"], case["d"]))
                    new.variances = np.ones((case["c"], case["d"]))
                    if st.get("target") == "raised_floors":
                        # the recycled machine has floors above the stored variances
                        new.variance_thresholds = 10.0 * float(np.max(np.asarray(live.variances)))
                        rec.probe("load_target_with_floors_above_the_stored_variances")
                else:
                    # an object of another shape (for MAP: adapted from another-shaped prior,
                    # then handed the right prior through its public attribute)
                    oc, od = case["c"] + 1, case["d"] + 1
                    if prior is not None:
                        p2 = GMMMachine(oc)
                        p2.means = np.zeros((oc, od))
                        p2.variances = np.ones((oc, od))
                        new = GMMMachine(oc, trainer="map", ubm=p2)
                        new.ubm = prior
                    else:
                        new = GMMMachine(oc)
                        new.means = np.zeros((oc, od))
                        new.variances = np.ones((oc, od))
                with _Handle(path, st["load_by"], where) as h:
                    new.load(h)
        except Exception as e:
            if is_harness_bug(e):
                raise HarnessError(f"harness bug: {e!r}")
            return Result.violation("load-raises", {"step": i, "how": st["reload"],
                                                    "exception": repr(e)[:300]})
        _fault(rec, "F5_restart_" + st["reload"])
        v = _compare_machines(orig, new, probe, X, i, st)
        if v is not None:
            return v
        held.append((new, _state_digest(new)))
        _load_others("machine", case, store, rec, st.get("others", 0), held)
        bad = _held_changed(held)
        if bad is not None:
            return Result.violation("loaded-object-changed-later", {"step": i, "object": bad})
        if first_file is None:
            first_file = (path, where)
        else:
            diff = _trees_equal(_file_tree(*first_file), _file_tree(path, where))
            if diff is not None:
                return Result.violation("resaved-file-differs", {"step": i, "diff": diff})
            rec.probe("resave_compared")
        if case.get("legacy_at") == i and case.get("pdtype", "float64") == "float64":
            # (legacy files hold float64 arrays only)
            lp = store.slot()
            _write_legacy_machine(live, lp)
            try:
                leg = GMMMachine.from_hdf5(lp, ubm=prior)
            except Exception as e:
                if is_harness_bug(e):
                    raise HarnessError(f"harness bug: {e!r}")
                return Result.violation("legacy-load-raises", {"exception": repr(e)[:300]})
            _fault(rec, "F5_restart_legacy")
            for name in ("weights", "means", "variances"):
                if not bits_equal(np.asarray(getattr(leg, name), float),
                                  np.asarray(getattr(new, name), float)):
                    return Result.violation("legacy-vs-current", {"param": name})
            thr_l = np.broadcast_to(np.asarray(leg.variance_thresholds, float), new.means.shape)
            thr_n = np.broadcast_to(np.asarray(new.variance_thresholds, float), new.means.shape)
            if not np.array_equal(thr_l, thr_n):
                return Result.violation("legacy-vs-current", {"param": "variance_thresholds"})
            if not bits_equal(np.asarray(leg.log_likelihood(probe)),
                              np.asarray(new.log_likelihood(probe))):
                return Result.violation("legacy-vs-current", {"param": "log_likelihood"})
        live = new
    return Result.ok()


def _compare_machines(o, r, probe, X, i, st):
    for name in ("weights", "means", "variances"):
        a, b = np.asarray(getattr(o, name)), np.asarray(getattr(r, name))
        if not bits_equal(a, b):
            return Result.violation("parameters-not-bit-identical",
                                    {"step": i, "param": name, "how": st["reload"],
                                     "dtype": [str(a.dtype), str(b.dtype)],
                                     "shape": [list(a.shape), list(b.shape)]})
    ta, tb = np.asarray(o.variance_thresholds, float), np.asarray(r.variance_thresholds, float)
    if ta.shape != tb.shape or not np.array_equal(ta, tb):
        return Result.violation("parameters-not-bit-identical",
                                {"step": i, "param": "variance_thresholds", "how": st["reload"],
                                 "orig": L(ta), "reloaded": L(tb)})
    try:
        eq = bool(o == r) and bool(r == o)
    except Exception as e:
        if is_harness_bug(e):
            raise HarnessError(f"harness bug: {e!r}")
        return Result.violation("equality-raises", {"step": i, "exception": repr(e)[:200]})
    if not eq:
        return Result.violation("not-equal-under-eq", {"step": i, "how": st["reload"]})
    la, lb = np.asarray(o.log_likelihood(probe)), np.asarray(r.log_likelihood(probe))
    if not bits_equal(la, lb):
        return Result.violation("scores-differ", {"step": i, "how": st["reload"],
                                                  "rel_diff": rel_diff(la, lb)})
    sa, sb = _settings(o), _settings(r)
    if sa != sb:
        bad = {k: [repr(sa[k]), repr(sb[k])] for k in sa if sa[k] != sb[k]}
        return Result.violation("settings-differ", {"step": i, "how": st["reload"], "settings": bad})
    # continued training must be identical
    o2, r2 = copy.deepcopy(o), copy.deepcopy(r)
    if o2.max_fitting_steps is None:
        # unlimited training need not terminate (e.g. a non-finite likelihood never meets the
        # threshold); equality of the settings was established above
        return None
    try:
        o2.fit(X.copy())
    except Exception as _e:
        if is_harness_bug(_e):
            raise HarnessError(f"harness bug: {_e!r}")
        return None
    try:
        r2.fit(X.copy())
    except Exception as e:
        if is_harness_bug(e):
            raise HarnessError(f"harness bug: {e!r}")
        return Result.violation("continued-training-differs",
                                {"step": i, "exception": repr(e)[:300]})
    for name in ("weights", "means", "variances"):
        dv = rel_diff(np.asarray(getattr(o2, name), float), np.asarray(getattr(r2, name), float))
        if dv > 1e-12:
            return Result.violation("continued-training-differs",
                                    {"step": i, "param": name, "rel_diff": dv,
                                     "how": st["reload"]})
    return None


def _stats_fields(s):
    return (np.asarray(s.n), np.asarray(s.sum_px), np.asarray(s.sum_pxx))


def _run_stats(case, rec, store):
    from bob.learn.em import GMMStats

    c, d = case["c"], case["d"]
    if case["src"] == "acc":
        live = _base_gmm(case).acc_stats(A(case["X"]))
    elif case["src"] == "zero":
        live = GMMStats(c, d)
        rec.probe("zero_stats")
    else:
        v = case["values"]
        live = GMMStats(c, d)
        live.t, live.log_likelihood = v["t"], v["ll"]
        live.n, live.sum_px, live.sum_pxx = A(v["n"]), A(v["sum_px"]), A(v["sum_pxx"])
    orig = live
    first_file = None
    held = []
    for i, st in enumerate(case["chain"]):
        path = store.slot()
        try:
            where = st.get("where")
            decoy = None
            if where == "group_beside_root_object":
                decoy = GMMStats(c, d)
                decoy.n = decoy.n + 3.0
                decoy.sum_px = decoy.sum_px + 1.5
                decoy.t = 11
            rec.probe("object_in_a_group_of_the_file", bool(where))
            _save(live, path, st["save_by"], where, decoy)
        except _SaveModified:
            return Result.violation("save-modifies-the-object", {"step": i})
        except Exception as e:
            if is_harness_bug(e):
                raise HarnessError(f"harness bug: {e!r}")
            return Result.violation("save-raises", {"step": i, "exception": repr(e)[:300]})
        _fault(rec, "F5_save_" + st["save_by"])
        try:
            how = st["reload"]
            if how in ("from_path", "from_file"):
                with _Handle(path, "path" if how == "from_path" else "file", where) as h:
                    new = GMMStats.from_hdf5(h)
            elif how == "load_rollback":
                new = copy.deepcopy(live)
                dr = st.get("drift", 0.0)
                new.n = np.array(new.n) * (1.0 + dr)
                new.sum_px = np.array(new.sum_px) * (1.0 + dr)
                with _Handle(path, st["load_by"], where) as h:
                    new.load(h)
            else:
                shp = (c, d) if how == "load_same" else tuple(case["other_shape"])
                new = GMMStats(*shp)
                new.n = new.n + 7.0
                new.t = 5
                with _Handle(path, st["load_by"], where) as h:
                    new.load(h)
        except Exception as e:
            if is_harness_bug(e):
                raise HarnessError(f"harness bug: {e!r}")
            return Result.violation("load-raises", {"step": i, "how": st["reload"],
                                                    "exception": repr(e)[:300]})
        _fault(rec, "F5_restart_" + st["reload"])
        for name, a, b in zip(("n", "sum_px", "sum_pxx"), _stats_fields(orig), _stats_fields(new)):
            if not bits_equal(np.asarray(a, float), np.asarray(b, float)) or \
                    np.asarray(b).dtype != np.float64:
                return Result.violation("statistics-not-bit-identical",
                                        {"step": i, "field": name, "how": st["reload"]})
        if _norm(orig.t) != _norm(new.t) or float(orig.log_likelihood) != float(new.log_likelihood):
            return Result.violation("statistics-not-bit-identical",
                                    {"step": i, "field": "t/log_likelihood", "how": st["reload"],
                                     "orig": [repr(orig.t), repr(orig.log_likelihood)],
                                     "new": [repr(new.t), repr(new.log_likelihood)]})
        if (int(new.n_gaussians), int(new.n_features)) != (c, d) or tuple(new.shape) != (c, d):
            return Result.violation("statistics-shape", {"step": i, "shape": list(new.shape)})
        try:
            eq = bool(orig == new) and bool(new == orig)
        except Exception as e:
            if is_harness_bug(e):
                raise HarnessError(f"harness bug: {e!r}")
            return Result.violation("equality-raises", {"step": i, "exception": repr(e)[:200]})
        if not eq:
            return Result.violation("not-equal-under-eq", {"step": i, "how": st["reload"]})
        # the reloaded container must keep working as a container
        try:
            s2 = new + orig
            if _norm(s2.t) != 2 * _norm(orig.t):
                return Result.violation("reloaded-statistics-unusable", {"step": i})
        except Exception as e:
            if is_harness_bug(e):
                raise HarnessError(f"harness bug: {e!r}")
            return Result.violation("reloaded-statistics-unusable",
                                    {"step": i, "exception": repr(e)[:200]})
        if first_file is None:
            first_file = (path, where)
        else:
            diff = _trees_equal(_file_tree(*first_file), _file_tree(path, where))
            if diff is not None:
                return Result.violation("resaved-file-differs", {"step": i, "diff": diff})
            rec.probe("resave_compared")
        if case.get("legacy_at") == i:
            lp = store.slot()
            _write_legacy_stats(live, lp)
            try:
                leg = GMMStats.from_hdf5(lp)
            except Exception as e:
                if is_harness_bug(e):
                    raise HarnessError(f"harness bug: {e!r}")
                return Result.violation("legacy-load-raises", {"exception": repr(e)[:300]})
            _fault(rec, "F5_restart_legacy")
            for name, a, b in zip(("n", "sum_px", "sum_pxx"), _stats_fields(leg), _stats_fields(new)):
                if not bits_equal(np.asarray(a, float), np.asarray(b, float)):
                    return Result.violation("legacy-vs-current", {"field": name})
            if _norm(leg.t) != _norm(new.t) or float(leg.log_likelihood) != float(new.log_likelihood):
                return Result.violation("legacy-vs-current", {"field": "t/log_likelihood"})
        held.append((new, _state_digest(new)))
        _load_others("stats", case, store, rec, st.get("others", 0), held)
        bad = _held_changed(held)
        if bad is not None:
            return Result.violation("loaded-object-changed-later", {"step": i, "object": bad})
        live = new
    return Result.ok()


def signature(case, clause):
    if case["kind"] == "stats":
        return "stats"
    return f"{case['kind']}/limit={'None' if case['max_steps'] is None else 'int'}" \
           f"/thr={'None' if case['thr'] is None else ('default' if case['thr'] == 1e-5 else 'other')}"


def shrink(case):
    ch = case["chain"]
    if len(ch) > 1:
        yield dict(case, chain=ch[:1])
        yield dict(case, chain=ch[:-1])
        yield dict(case, chain=ch[1:])
    for i, st in enumerate(ch):
        if st.get("where"):
            yield dict(case, chain=ch[:i] + [{k: v for k, v in st.items() if k != "where"}] + ch[i + 1:])
        if st["save_by"] != "path" or st["reload"] != "from_path":
            yield dict(case, chain=ch[:i] + [dict(st, save_by="path", reload="from_path")] + ch[i + 1:])
    if case.get("legacy_at") is not None:
        yield dict(case, legacy_at=None)
    if case["kind"] == "stats":
        if case["src"] != "zero":
            yield dict(case, src="zero")
        return
    if case["pretrain"]:
        yield dict(case, pretrain=0)
    if case["kind"] == "map":
        yield dict(case, kind="ml")
    if case["floor"] is not None:
        yield dict(case, floor=None)
    for k, dv in (("um", True), ("uv", False), ("uw", False)):
        if case[k] != dv:
            yield dict(case, **{k: dv})
    if case["max_steps"] != 1:
        yield dict(case, max_steps=1)
    if case["thr"] != 1e-5:
        yield dict(case, thr=1e-5)
    n = len(case["X"])
    if n > 3:
        yield dict(case, X=case["X"][: max(3, n // 2)])
