"""Helpers shared by property modules: simulated-run recorder, data generators."""
import numpy as np

from .. import seams
from ..sim import make_sim
from ..util import sig6, digest


class SimRec:
    """Runs callables under a SimScheduler and accumulates what happened."""

    def __init__(self, replay=None):
        self.replay = replay or {}
        self.choices = {}
        self.digests = []
        self.faults = {"F1_reorder_choices": 0, "F2_stalls": 0, "F3_spec_copies": 0,
                       "F3_input_copies": 0, "F3_output_copies": 0, "F3_transfers": 0,
                       "F3_same_worker_shares": 0, "F9_thread_preemptions": 0,
                       "F10_injected_task_failures": 0}
        self.tasks = 0
        self.gets = 0
        self.nontrivial = 0
        self.probes = {}
        self.n = 0
        self.results = []

    def run(self, sched, fn, np_seed=0, label=None):
        label = label or f"sim{self.n}"
        self.n += 1
        seams.begin_run(np_seed)
        rp = self.replay.get(label) if self.replay else None
        sim = make_sim(sched, replay=rp)
        try:
            with sim.installed():
                out = fn()
        finally:
            self.choices[label] = list(sim.choices.log)
            self.digests.append((label, sim.digest()))
            st = sim.stats
            self.faults["F1_reorder_choices"] += st["reorder_choices"]
            self.faults["F2_stalls"] += st["stalls"]
            self.faults["F3_spec_copies"] += st["spec_copies"]
            self.faults["F3_input_copies"] += st["input_copies"]
            self.faults["F3_output_copies"] += st["output_copies"]
            self.faults["F3_transfers"] += st["transfers"]
            self.faults["F3_same_worker_shares"] += st["same_worker_shares"]
            self.faults["F9_thread_preemptions"] += st["preemptions"]
            self.faults["F10_injected_task_failures"] += st["injected_task_failures"]
            if st.get("injected_mid_task_failures"):
                self.faults["F10_of_which_inside_a_running_task"] = \
                    self.faults.get("F10_of_which_inside_a_running_task", 0) + \
                    st["injected_mid_task_failures"]
            self.tasks += st["tasks"]
            self.gets += st["gets"]
            self.nontrivial += sim.choices.nontrivial
            self.last_stats = dict(st)
        return out

    def note(self, *objs):
        """Feed observed results into the run digest (determinism self-test compares it)."""
        self.results.append(digest(*objs))

    def probe(self, name, v=1):
        self.probes[name] = self.probes.get(name, 0) + int(v)

    def fields(self, extra_digest=None):
        # `digest` identifies the execution (which tasks ran, in which order, where, pre-empted
        # how often); `result_digest` the values that came out. A replay must reproduce the
        # former exactly; the latter may legitimately differ for a defect whose output is
        # nondeterministic (uninitialised memory), which is still a violation of the same clause.
        return dict(choices=self.choices, digest=digest(self.digests, extra_digest),
                    result_digest=digest(self.results),
                    faults={k: v for k, v in self.faults.items() if v},
                    probes=self.probes, tasks=self.tasks,
                    nontrivial=self.nontrivial > 0)


def gen_data(rng, n, d, n_clusters=None):
    """Clustered data, mixed feature scales and shifts, 6 significant digits."""
    rs = np.random.RandomState(rng.getrandbits(32))
    k = n_clusters or rng.randint(1, 4)
    scale = 10.0 ** rs.uniform(-2, 2, size=d) if rng.random() < 0.5 else \
        np.full(d, 10.0 ** rng.uniform(-1, 1))
    shift = rs.uniform(-3, 3, size=d) * scale * (rng.random() < 0.6)
    centers = rs.randn(k, d) * 2.0
    lab = rs.randint(0, k, size=n)
    X = centers[lab] + rs.randn(n, d) * rs.uniform(0.2, 1.0)
    X = X * scale + shift
    if rng.random() < 0.1 and n > 3:  # duplicated rows
        for _ in range(rng.randint(1, 3)):
            X[rng.randrange(n)] = X[rng.randrange(n)]
    return sig6(X)


def gen_simplex(rng, k):
    w = np.array([rng.uniform(0.2, 1.0) for _ in range(k)])
    return sig6(w / w.sum())


def trim(obj, maxrows=6):
    """Shortened view of a case for evidence samples."""
    if isinstance(obj, dict):
        return {k: trim(v, maxrows) for k, v in obj.items()}
    if isinstance(obj, list):
        if len(obj) > maxrows:
            return {"len": len(obj), "head": [trim(x, maxrows) for x in obj[:maxrows]]}
        return [trim(x, maxrows) for x in obj]
    return obj


def drop_row_chunks(chunks, i):
    """Remove row i from a composition (list of chunk sizes)."""
    out, start = [], 0
    for c in chunks:
        c2 = c - 1 if start <= i < start + c else c
        start += c
        if c2 > 0:
            out.append(c2)
    return out


def tail(rng, lo, hi, tails, p=0.05):
    """Mostly a small value in [lo, hi]; with probability p one of the deliberate tail values
    (counts just past 8, 16, 32, 64, 128: where grouped / blocked code paths switch)."""
    if rng.random() < p:
        return rng.choice(list(tails))
    return rng.randint(lo, hi)
