"""Self-tests of the simulator itself (DESIGN.md §2.5).

determinism: N seeds x {twice in one process, fresh interpreter with PYTHONHASHSEED 1 and 77,
reverse order in a fresh interpreter}; status + event-log digest + result digest must agree.
"""
import json
import os
import random
import subprocess
import sys

from . import driver


def _digests(P, tier, master, n, order=None):
    out = {}
    idx = list(range(n))
    if order == "reverse":
        idx.reverse()
    for i in idx:
        seed = driver.derive_seed(master, i)
        case = P.gen_case(random.Random(seed), tier)
        r = P.run_case(case)
        out[str(i)] = [r["status"], r.get("clause"), r.get("digest"), r.get("result_digest"),
                       _h(json.dumps(r.get("choices"), sort_keys=True))]
    return out


def _h(s):
    import hashlib

    return hashlib.blake2b(s.encode(), digest_size=8).hexdigest()


def determinism(pid, tier, master, n):
    P = driver.load_prop(pid)
    driver._P = P
    if hasattr(P, "setup"):
        P.setup()
    if os.environ.get("VERIF_SELFTEST_CHILD"):
        d = _digests(P, tier, master, n, order=os.environ.get("VERIF_SELFTEST_ORDER"))
        print("SELFTEST-DIGESTS " + json.dumps(d, sort_keys=True))
        return 0
    a = _digests(P, tier, master, n)
    b = _digests(P, tier, master, n)
    bad = [i for i in a if a[i] != b[i]]
    if bad:
        print(f"SELFTEST-FAIL {pid}: same seed twice in one process differs for runs {bad[:5]}")
        return 2
    main = os.path.join(driver.VERIF, "dst", "main.py")
    for hs, order in (("1", None), ("77", "reverse")):
        env = dict(os.environ)
        env.pop("VERIF_REEXEC", None)
        env["PYTHONHASHSEED"] = hs
        env["VERIF_SELFTEST_CHILD"] = "1"
        if order:
            env["VERIF_SELFTEST_ORDER"] = order
        p = subprocess.run([sys.executable, main, pid, "--tier", tier, "--selftest",
                            "determinism", "--runs", str(n)], env=env, capture_output=True,
                           text=True, timeout=1200)
        line = [ln for ln in p.stdout.splitlines() if ln.startswith("SELFTEST-DIGESTS ")]
        if p.returncode != 0 or not line:
            print(f"SELFTEST-FAIL {pid}: child failed rc={p.returncode}\n{p.stdout[-1500:]}{p.stderr[-1500:]}")
            return 2
        c = json.loads(line[0][len("SELFTEST-DIGESTS "):])
        bad = [i for i in a if a[i] != c.get(i)]
        if bad:
            print(f"SELFTEST-FAIL {pid}: PYTHONHASHSEED={hs} order={order} differs for runs "
                  f"{bad[:5]}: {a[bad[0]]} vs {c.get(bad[0])}")
            return 2
    print(f"SELFTEST-OK {pid}: {n} seeds x (twice in-process, fresh interpreter PYTHONHASHSEED=1, "
          f"fresh interpreter PYTHONHASHSEED=77 in reverse order) identical status, "
          f"event-log digest and choice list")
    return 0


def batch(pid, tier, master, n):
    """The same n runs at two pool sizes must produce the same set of (case, event-log, result)
    digests: a run's outcome must not depend on which worker ran it or what ran before it."""
    import io
    import contextlib

    outs = []
    for workers in (3, 16):
        buf = io.StringIO()
        with contextlib.redirect_stdout(buf):
            rc = driver.run_batch(pid, tier, master, budget_s=3600, max_runs=n, workers=workers)
        with open(os.path.join(driver.evidence_dir(), f"{pid}.json")) as f:
            ev = json.load(f)
        outs.append((rc, ev["coverage"]["evaluations"], ev["coverage"]["distinct_nontrivial"],
                     ev["coverage"]["result_set_digest"]))
    if outs[0] != outs[1]:
        print(f"SELFTEST-FAIL {pid}: batch differs between 3 and 16 workers: {outs}")
        return 2
    print(f"SELFTEST-OK {pid}: batch of {n} runs identical at 3 and 16 workers {outs[0]}")
    return 0
