"""Entry point: ./check <ID> [--tier quick|thorough] [--replay FILE] [--runs N] [--budget S]"""
import argparse
import os
import sys

HERE = os.path.dirname(os.path.abspath(__file__))
sys.path.insert(0, os.path.dirname(HERE))

from dst import seams  # noqa: E402

seams.reexec_if_needed()


def main():
    ap = argparse.ArgumentParser()
    ap.add_argument("prop")
    ap.add_argument("--tier", default=os.environ.get("VERIF_TIER") or "quick",
                    choices=["quick", "thorough"])
    ap.add_argument("--replay")
    ap.add_argument("--runs", type=int)
    ap.add_argument("--budget", type=float)
    ap.add_argument("--workers", type=int)
    ap.add_argument("--selftest", choices=["determinism", "batch"])
    args = ap.parse_args()

    seams.install_repo_path()
    seams.install_uuid_seam()
    import warnings

    warnings.filterwarnings("ignore")
    import logging

    logging.disable(logging.CRITICAL)

    from dst import driver

    pid = args.prop.upper()
    master = int(os.environ.get("VERIF_SEED") or 0)
    if args.replay:
        P = driver.load_prop(pid)
        driver._P = P
        if hasattr(P, "setup"):
            P.setup()
        return driver.replay_file(P, args.replay)
    if args.selftest == "determinism":
        from dst import selftest

        return selftest.determinism(pid, args.tier, master, args.runs or 40)
    if args.selftest == "batch":
        from dst import selftest

        return selftest.batch(pid, args.tier, master, args.runs or 200)
    return driver.run_batch(pid, args.tier, master, budget_s=args.budget,
                            max_runs=args.runs, workers=args.workers)


if __name__ == "__main__":
    try:
        rc = main()
    except SystemExit:
        raise
    except BaseException:
        import traceback

        traceback.print_exc()
        print("HARNESS-ERROR: uncaught exception in driver")
        rc = 2
    sys.stdout.flush()
    sys.exit(rc)
