"""Batch driver: seeded runs on a fork pool, violation handling, evidence."""
import concurrent.futures as cf
import faulthandler
import hashlib
import importlib
import json
import multiprocessing
import os
import random
import subprocess
import sys
import time
import traceback

from . import seams
from .util import case_digest

VERIF = os.path.dirname(os.path.dirname(os.path.abspath(__file__)))
RUN_TIMEOUT = 120  # seconds per single simulated run (hang guard)
KNOWN_FILE = os.path.join(VERIF, "known_findings.json")

_P = None  # property module (inherited by forked workers)
_FIXED = None
_KNOWN = []  # listed findings of this property (inherited by forked workers)


def evidence_dir():
    """Evidence of runs against a scratch copy (VERIF_REPO != /repo) must never overwrite the
    evidence of /repo itself."""
    if os.environ.get("VERIF_EVIDENCE_DIR"):
        return os.path.join(VERIF, os.environ["VERIF_EVIDENCE_DIR"])
    if os.path.realpath(seams.repo_root()) == "/repo":
        return os.path.join(VERIF, "evidence")
    return os.path.join(VERIF, "evidence-scratch")


def derive_seed(master, i):
    h = hashlib.blake2b(f"{master}/{i}".encode(), digest_size=8).digest()
    return int.from_bytes(h, "big")


def load_prop(pid):
    return importlib.import_module(f"dst.props.{pid.lower()}")


# ---------------------------------------------------------------------------
# worker side
# ---------------------------------------------------------------------------
def _run_one(case):
    faulthandler.dump_traceback_later(RUN_TIMEOUT, exit=True)
    seams.reset_process_state()
    try:
        return _P.run_case(case)
    finally:
        faulthandler.cancel_dump_traceback_later()


def _worker_chunk(job):
    kind, master, tier, start, count = job
    agg = {
        "evaluations": 0, "ok": 0, "skips": {}, "violations": [], "known": {},
        "digests": set(), "probes": {}, "faults": {}, "tasks": 0,
        "samples": [], "errors": [], "by_kind": {}, "first_seed": None, "last_seed": None,
    }
    for i in range(start, start + count):
        try:
            if kind == "fixed":
                case = _FIXED[i]
                seed_i = None
            else:
                seed_i = derive_seed(master, i)
                case = _P.gen_case(random.Random(seed_i), tier)
            res = _run_one(case)
        except Exception:
            agg["errors"].append({"index": i, "kind": kind,
                                  "trace": traceback.format_exc()[-3000:]})
            continue
        agg["evaluations"] += 1
        k = case.get("kind", "?")
        agg["by_kind"][k] = agg["by_kind"].get(k, 0) + 1
        for name, v in res.get("probes", {}).items():
            agg["probes"][name] = agg["probes"].get(name, 0) + int(v)
        for name, v in res.get("faults", {}).items():
            agg["faults"][name] = agg["faults"].get(name, 0) + int(v)
        agg["tasks"] += res.get("tasks", 0)
        st = res["status"]
        if st == "ok":
            agg["ok"] += 1
        elif st == "skip":
            agg["skips"][res["reason"]] = agg["skips"].get(res["reason"], 0) + 1
        else:
            k = match_known(_P, _KNOWN, case, res["clause"])
            if k is not None:
                # a listed finding: counted, never reported, and never allowed to cut the
                # exploration short
                agg["known"][k["id"]] = agg["known"].get(k["id"], 0) + 1
            else:
                agg["violations"].append({"index": i, "kind": kind, "seed": seed_i,
                                          "case": case, "clause": res["clause"],
                                          "detail": res["detail"]})
        if res.get("nontrivial", True) and st != "skip":
            d = hashlib.blake2b((case_digest(case) + str(res.get("digest", ""))
                                 + str(res.get("result_digest", ""))).encode(),
                                digest_size=8).digest()
            agg["digests"].add(d)
        if kind == "rand" and len(agg["samples"]) < 2 and i < 4:
            agg["samples"].append({"seed": seed_i, "case": _P.sample_view(case),
                                   "status": st, "event_digest": res.get("digest"),
                                   "tasks": res.get("tasks", 0)})
    return agg


# ---------------------------------------------------------------------------
# known findings
# ---------------------------------------------------------------------------
def load_known(pid):
    try:
        with open(KNOWN_FILE) as f:
            data = json.load(f)
    except FileNotFoundError:
        return []
    return [k for k in data.get("findings", [])
            if k.get("property") == pid and k.get("status", "known") == "known"]


def match_known(P, known, case, clause):
    sig = P.signature(case, clause)
    for k in known:
        if k["clause"] == clause and k["signature"] == sig:
            return k
    return None


# ---------------------------------------------------------------------------
# minimisation and replay
# ---------------------------------------------------------------------------
def minimise(P, case, clause, budget_s=60.0):
    """Greedy: adopt any candidate that still violates the same clause."""
    t0 = time.time()
    cur = case
    steps = 0
    improved = True
    while improved and time.time() - t0 < budget_s:
        improved = False
        for cand in P.shrink(cur):
            if time.time() - t0 > budget_s:
                break
            try:
                r = _run_one(cand)
            except Exception:
                continue
            if r["status"] == "violation" and r["clause"] == clause:
                cur = cand
                steps += 1
                improved = True
                break
    return cur, steps


def write_replay(P, case, clause, seed, master):
    res = P.run_case(case)
    os.makedirs(os.path.join(VERIF, "replays"), exist_ok=True)
    tag = seed if seed is not None else "fixed-" + case_digest(case)[:10]
    path = os.path.join(VERIF, "replays", f"{P.ID}-{tag}.json")
    doc = {
        "property": P.ID, "clause": clause, "seed": seed, "verif_seed": master,
        "case": case, "choices": res.get("choices", {}),
        "event_digest": res.get("digest"), "result_digest": res.get("result_digest"),
        "detail": res.get("detail"),
        "status": res["status"],
        "repo": seams.repo_root(),
        "how_to_replay": f"./check {P.ID} --replay {path}",
    }
    with open(path, "w") as f:
        json.dump(doc, f, indent=1)
    return path, res


def replay_file(P, path):
    with open(path) as f:
        doc = json.load(f)
    res = P.run_case(doc["case"], replay=doc.get("choices") or None)
    print(f"replay: status={res['status']} clause={res.get('clause')} "
          f"event_digest={res.get('digest')} expected_digest={doc.get('event_digest')}")
    if res["status"] == "violation":
        print("detail:", json.dumps(res["detail"], default=str)[:2000])
        same_sched = res.get("digest") == doc.get("event_digest")
        same_clause = res["clause"] == doc["clause"]
        if res.get("result_digest") != doc.get("result_digest") or not same_clause:
            print("note: same recorded schedule, the property is violated again, but with other "
                  "output values" + ("" if same_clause else f" and through another oracle clause "
                  f"({res['clause']} instead of {doc['clause']})") + " than when the replay file "
                  "was written: the defect's output is nondeterministic (e.g. uninitialised "
                  "memory); the schedule and the violation are what the file reproduces")
        if not same_sched and os.environ.get("VERIF_RERECORD") == "1":
            # The run that found this violation was influenced by earlier runs of its worker
            # process (process-wide state in the code under test), so a fresh interpreter takes
            # another path to the same kind of violation. The file is re-recorded from THIS
            # execution - the one a fresh interpreter performs - and must replay exactly.
            doc.update(clause=res["clause"], detail=res["detail"], choices=res.get("choices"),
                       event_digest=res.get("digest"), result_digest=res.get("result_digest"),
                       rerecorded="found under process-wide state left by earlier runs of the "
                                  "worker; re-recorded from a fresh interpreter")
            with open(path, "w") as f:
                json.dump(doc, f, default=str)
            print("REPLAY-RERECORDED")
        print(f"REPLAY-REPRODUCED clause={res['clause']} same_clause={same_clause} "
              f"same_schedule={same_sched}")
        print(f"VIOLATION property={P.ID} replay={path}")
        return 1
    print("REPLAY-NOT-REPRODUCED")
    return 0


def confirm_fresh(P, path, clause):
    """Replay in a fresh interpreter; must reproduce the same clause and event digest."""
    main = os.path.join(VERIF, "dst", "main.py")
    env = dict(os.environ)
    env.pop("VERIF_REEXEC", None)
    p = subprocess.run([sys.executable, main, P.ID, "--replay", path],
                       capture_output=True, text=True, env=env, timeout=600)
    # the fresh interpreter must violate the property again under exactly the recorded schedule
    # (same event log); the clause may differ only for defects with nondeterministic output
    ok = p.returncode == 1 and "REPLAY-REPRODUCED" in p.stdout and "same_schedule=True" in p.stdout
    if not ok and p.returncode == 1 and "REPLAY-REPRODUCED" in p.stdout:
        # violated again, through another execution: see replay_file (re-record, then the
        # re-recorded file must replay exactly in yet another fresh interpreter)
        subprocess.run([sys.executable, main, P.ID, "--replay", path], capture_output=True,
                       text=True, env=dict(env, VERIF_RERECORD="1"), timeout=600)
        p = subprocess.run([sys.executable, main, P.ID, "--replay", path],
                           capture_output=True, text=True, env=env, timeout=600)
        ok = p.returncode == 1 and "REPLAY-REPRODUCED" in p.stdout and \
            "same_schedule=True" in p.stdout
    return ok, p.stdout[-2000:] + p.stderr[-2000:]


# ---------------------------------------------------------------------------
# main batch
# ---------------------------------------------------------------------------
def run_batch(pid, tier, master, budget_s=None, max_runs=None, workers=None, quiet=False):
    global _P, _FIXED, _KNOWN
    t0 = time.time()
    P = load_prop(pid)
    _P = P
    if hasattr(P, "setup"):
        P.setup()
    _FIXED = list(P.fixed_cases(tier)) if hasattr(P, "fixed_cases") else []
    known = load_known(pid)
    _KNOWN = known
    budget_s = budget_s if budget_s is not None else P.BUDGET[tier]
    max_runs = max_runs if max_runs is not None else P.MAX_RUNS[tier]
    workers = workers or int(os.environ.get("VERIF_WORKERS", "0")) or min(16, os.cpu_count() or 1)
    chunk = P.CHUNK
    total = {
        "evaluations": 0, "ok": 0, "skips": {}, "violations": [], "known": {},
        "digests": set(), "probes": {}, "faults": {}, "tasks": 0, "samples": [],
        "errors": [], "by_kind": {}, "fixed_done": 0,
    }

    jobs = []
    for s in range(0, len(_FIXED), chunk):
        jobs.append(("fixed", master, tier, s, min(chunk, len(_FIXED) - s)))
    n_fixed_jobs = len(jobs)
    rand_next = 0
    deadline = t0 + budget_s
    harness_error = None

    def next_job():
        nonlocal rand_next
        if jobs:
            return jobs.pop(0)
        if time.time() >= deadline or rand_next >= max_runs:
            return None
        c = min(chunk, max_runs - rand_next)
        j = ("rand", master, tier, rand_next, c)
        rand_next += c
        return j

    def merge(a):
        total["evaluations"] += a["evaluations"]
        total["ok"] += a["ok"]
        total["tasks"] += a["tasks"]
        for key in ("skips", "probes", "faults", "by_kind", "known"):
            for k, v in a[key].items():
                total[key][k] = total[key].get(k, 0) + v
        total["digests"] |= a["digests"]
        total["violations"].extend(a["violations"])
        total["errors"].extend(a["errors"])
        if len(total["samples"]) < 4:
            total["samples"].extend(a["samples"])

    ctx = multiprocessing.get_context("fork")
    try:
        with cf.ProcessPoolExecutor(max_workers=workers, mp_context=ctx) as ex:
            pending = set()
            for _ in range(workers * 2):
                j = next_job()
                if j is None:
                    break
                pending.add(ex.submit(_worker_chunk, j))
            while pending:
                done, pending = cf.wait(pending, timeout=RUN_TIMEOUT * 2 + 60,
                                        return_when=cf.FIRST_COMPLETED)
                if not done:
                    harness_error = "worker pool stalled (no chunk finished in time)"
                    for f in pending:
                        f.cancel()
                    break
                for f in done:
                    merge(f.result())
                    # stop early when there is something to report
                    j = None if (total["errors"] or len(total["violations"]) > 200) else next_job()
                    if j is not None:
                        pending.add(ex.submit(_worker_chunk, j))
    except cf.process.BrokenProcessPool as e:
        harness_error = f"worker died (timeout or crash): {e!r}"

    if total["errors"] and not harness_error:
        harness_error = "exception in harness/run_case: " + total["errors"][0]["trace"]

    # ---------------- violations ----------------
    new_violations = []
    for v in sorted(total["violations"], key=lambda v: (v["kind"], v["index"])):
        k = match_known(P, known, v["case"], v["clause"])
        if k is not None:
            total["known"][k["id"]] = total["known"].get(k["id"], 0) + 1
        else:
            new_violations.append(v)

    # demonstration case of every listed finding (so each is re-confirmed on every run)
    known_lines = []
    for k in known:
        demo = k.get("demo_case")
        status = "not-run"
        if demo is not None:
            try:
                r = _run_one(demo)
                if r["status"] == "violation" and r["clause"] == k["clause"]:
                    status = "reproduced"
                    total["known"][k["id"]] = total["known"].get(k["id"], 0) + 1
                else:
                    status = f"demo no longer fails (status={r['status']} clause={r.get('clause')})"
            except Exception as e:  # demo must never break the check
                status = f"demo raised {e!r}"
        known_lines.append((k, status))

    reported = []
    exit_code = 0
    if harness_error:
        exit_code = 2
    if new_violations and not harness_error:
        exit_code = 1
        seen_clauses = {}
        for v in new_violations:
            if seen_clauses.get(v["clause"], 0) >= 2 or len(reported) >= 4:
                continue
            seen_clauses[v["clause"]] = seen_clauses.get(v["clause"], 0) + 1
            try:
                r2 = _run_one(v["case"])
                if r2["status"] != "violation" or r2["clause"] != v["clause"]:
                    harness_error = f"violation not reproducible in-process: {v['clause']}"
                    exit_code = 2
                    break
                small, nsteps = minimise(P, v["case"], v["clause"])
                path, _ = write_replay(P, small, v["clause"], v["seed"], master)
                ok, out = confirm_fresh(P, path, v["clause"])
                if not ok:
                    harness_error = ("fresh-interpreter replay did not reproduce "
                                     f"{path}:\n{out}")
                    exit_code = 2
                    break
                reported.append({"clause": v["clause"], "replay": path,
                                 "shrink_steps": nsteps, "seed": v["seed"],
                                 "detail": v["detail"]})
            except Exception:
                harness_error = "exception while minimising/replaying: " + traceback.format_exc()
                exit_code = 2
                break

    wall = time.time() - t0
    ev = build_evidence(P, tier, master, total, wall, len(new_violations), known_lines,
                        reported, harness_error, rand_next, workers)
    os.makedirs(evidence_dir(), exist_ok=True)
    with open(os.path.join(evidence_dir(), f"{P.ID}.json"), "w") as f:
        json.dump(ev, f, indent=1, default=str)

    if not quiet:
        print(f"[{P.ID}] tier={tier} seed={master} runs={total['evaluations']} "
              f"(fixed={len(_FIXED)}) distinct_nontrivial={len(total['digests'])} "
              f"skips={total['skips']} tasks={total['tasks']} wall={wall:.1f}s "
              f"runs/h={int(total['evaluations'] / max(wall, 1e-9) * 3600)}")
        print(f"[{P.ID}] faults fired: {total['faults']}")
        print(f"[{P.ID}] probes: {total['probes']}")
    for k, status in known_lines:
        if status == "reproduced" or total["known"].get(k["id"]):
            print(f"KNOWN-FINDING: property={P.ID} {k['what']} "
                  f"[id={k['id']} hits={total['known'].get(k['id'], 0)}]")
        else:
            print(f"NOTE: listed finding {k['id']} not reproduced in this run: {status}")
    if harness_error:
        print(f"HARNESS-ERROR property={P.ID}: {harness_error}")
    else:
        for r in reported:
            print(f"violation clause={r['clause']} seed={r['seed']} "
                  f"detail={json.dumps(r['detail'], default=str)[:600]}")
            print(f"VIOLATION property={P.ID} replay={r['replay']}")
    return exit_code


def build_evidence(P, tier, master, total, wall, n_new, known_lines, reported,
                   harness_error, n_rand_submitted, workers):
    evals = total["evaluations"]
    skipped = sum(total["skips"].values())
    cov = {
        "evaluations": evals,
        "distinct_nontrivial": len(total["digests"]),
        "result_set_digest": hashlib.blake2b(b"".join(sorted(total["digests"])),
                                             digest_size=12).hexdigest(),
        "rule": P.RULE,
        "samples": total["samples"][:4],
        "exhaustive": False,
        "fixed_cases": len(_FIXED or []),
        "random_runs_submitted": n_rand_submitted,
        "by_kind": total["by_kind"],
        "skips": total["skips"],
        "skip_fraction": (skipped / evals) if evals else 0.0,
        "fault_kinds_fired": total["faults"],
        "reach_probes": total["probes"],
        "simulated_tasks": total["tasks"],
        "simulated_time_note": "the repository has no clock; simulated time is the number of "
                               "simulated task executions / history operations",
        "runs_per_hour": int(evals / max(wall, 1e-9) * 3600),
        "workers": workers,
        "seeds": f"run i uses blake2b('{master}/i'), i in [0,{n_rand_submitted})",
        "components": getattr(P, "COMPONENTS", {}),
        "known_findings": [{"id": k["id"], "status": s} for k, s in known_lines],
        "known_finding_hits": total["known"],
        "reported_violations": reported,
        "harness_error": harness_error,
        "repo": seams.repo_root(),
    }
    if hasattr(P, "exhaustive_note"):
        cov["exhaustive_note"] = P.exhaustive_note(tier)
    return {
        "property_id": P.ID,
        "tier": tier,
        "seed": int(master),
        "level": "exploration",
        "coverage": cov,
        "assumptions": list(getattr(P, "ASSUMPTIONS", [])),
        "wall_s": round(wall, 2),
        "violations": n_new,
    }
