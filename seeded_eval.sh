#!/bin/sh
# usage: seeded_eval.sh <worktree-or-seeded-dir> <check ids...>
# 1. demo must FAIL on a scratch copy with the patch and PASS on /repo's tree
# 2. apply patch to /repo, run the given quick checks, undo. Prints one line per check.
SRC="$1"; shift
PATCH="$SRC/patch.diff"; DEMO="$SRC/demo.py"
[ -f "$PATCH" ] || { echo "no patch in $SRC"; exit 2; }
git -C /repo diff --quiet || { echo "/repo has uncommitted changes"; exit 2; }
D=$(mktemp -d /tmp/seval.XXXXXX)
cp -r /repo/src "$D/src"
(cd "$D" && patch -p1 -s < "$PATCH") || { echo "patch does not apply"; rm -rf "$D"; exit 2; }
if [ -f "$DEMO" ]; then
  (cd "$D" && PYTHONPATH="$D/src" timeout 600 /venv/bin/python "$DEMO" >/dev/null 2>&1); rc_mod=$?
  (cd "$D" && PYTHONPATH=/repo/src timeout 600 /venv/bin/python "$DEMO" >/dev/null 2>&1); rc_orig=$?
  echo "demo: modified rc=$rc_mod (want !=0), original rc=$rc_orig (want 0)"
fi
rm -rf "$D"
git -C /repo apply "$PATCH" || { echo "git apply failed"; exit 2; }
cd /verif
for c in "$@"; do
  out=$(VERIF_EVIDENCE_DIR=evidence-scratch ./check "$c" 2>&1); rc=$?
  clauses=$(echo "$out" | grep -o "violation clause=[a-z-]*" | sort | uniq -c | tr '\n' ';')
  echo "check $c rc=$rc $clauses"
done
git -C /repo checkout -- .
git -C /repo status --short | grep -v coverage
