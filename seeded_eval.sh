#!/bin/sh
# usage: seeded_eval.sh <worktree-or-seeded-dir> <check ids...>
# 1. demo must FAIL on a scratch copy of /repo with the patch and PASS on /repo's tree
# 2. run the given quick checks against the patched scratch copy (VERIF_REPO), one line per check.
# (Equivalent to `git -C /repo apply` + checks + `git -C /repo checkout -- .`, but /repo is never
#  touched, so sub-agents and background runs that read /repo are not disturbed.)
SRC="$1"; shift
PATCH="$SRC/patch.diff"; DEMO="$SRC/demo.py"
[ -f "$PATCH" ] || { echo "no patch in $SRC"; exit 2; }
D=$(mktemp -d /tmp/seval.XXXXXX)
cp -r /repo/src "$D/src"; mkdir -p "$D/tests"; cp -r /repo/tests/data "$D/tests/data"
(cd "$D" && patch -p1 -s < "$PATCH") || { echo "patch does not apply"; rm -rf "$D"; exit 2; }
if [ -f "$DEMO" ]; then
  (cd "$D" && PYTHONPATH="$D/src" timeout 900 /venv/bin/python "$DEMO" >/dev/null 2>&1); rc_mod=$?
  (cd "$D" && PYTHONPATH=/repo/src timeout 900 /venv/bin/python "$DEMO" >/dev/null 2>&1); rc_orig=$?
  echo "demo: modified rc=$rc_mod (want !=0), original rc=$rc_orig (want 0)"
fi
cd /verif
for c in "$@"; do
  out=$(VERIF_REPO="$D" ./check "$c" 2>&1); rc=$?
  clauses=$(echo "$out" | grep -o "violation clause=[a-z-]*" | sort | uniq -c | tr '\n' ';')
  echo "check $c rc=$rc $clauses"
done
rm -rf "$D"
